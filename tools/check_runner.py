"""cgreen-runner checks: C09 (runs exactly the defined and selected tests) and the runner part
of C01 (exit status = OR over libraries)."""
import ctypes, os, re, shutil, subprocess
from concurrent.futures import ThreadPoolExecutor
import vlib

TRUSTED = [
    "Coq 8.16.1 kernel (full .vo build; vm_compute only in examples; no native_compute)",
    "RunnerTool.v is a hand-written Gallina model of tools/test_item.c, tools/runner.c and main() of tools/cgreen-runner.c; tied to the code by (a) translated facts: the discoverer's marker strings, the shape of spec_name(), which name run_tests() hands to run_single_test(); (b) running the real cgreen-runner on generated libraries (differential testing)",
    "extraction: ExtrOcamlBasic only; ocaml/h_tool.ml glue",
    "correspondence: generated C test libraries whose tests append their own name to a log (tools/check_runner.py), compiled with gcc against /repo's headers, run by the cgreen-runner built from /repo's working tree; glob vs fnmatch(3) through ctypes",
    "modelled, not verified: nm(1) output format, fnmatch(3) (model: literal characters and '*'), dlopen/dlsym, access(2), the run of the selected tests itself (runner model, C01-C03)",
]

CFLAGS = ["-shared", "-fPIC", "-O0", "-w"]


def sx(b):
    return "(" + " ".join(str(x) for x in b) + ")" if b else "e"


HEAD = ["#include <cgreen/cgreen.h>", "#include <stdio.h>", "#include <stdlib.h>", "#include <signal.h>",
        "static void logit(const char *s) { const char *p = getenv(\"VERIF_EXEC_LOG\"); if (p) { FILE *f = fopen(p, \"a\"); if (f) { fprintf(f, \"%s\\n\", s); fclose(f); } } }"]


def lib_sources(tests):
    """tests: list of (ctx or None, name, ok) -> {file suffix: source}; one translation unit per
    context (Describe() defines file-static fixtures)"""
    files = {}
    for c in sorted({c or "" for c, n, ok in tests}):
        out = list(HEAD)
        if c:
            out.append("Describe(%s); BeforeEach(%s) {} AfterEach(%s) {}" % (c, c, c))
        for c2, n, ok in tests:
            if (c2 or "") != c:
                continue
            head = "Ensure(%s, %s)" % (c, n) if c else "Ensure(%s)" % n
            if ok == "crash":
                out.append('%s { logit("%s:%s"); assert_that(1, is_equal_to(1)); raise(SIGKILL); }' % (head, c or "default", n))
            else:
                out.append('%s { logit("%s:%s"); assert_that(%d, is_equal_to(1)); }' % (head, c or "default", n, 1 if ok else 0))
        files[c or "default_"] = "\n".join(out) + "\n"
    return files


def lib_source(tests):
    return "\n".join("/* ---- %s.c ---- */\n%s" % kv for kv in lib_sources(tests).items())


def build_lib(build, d, name, tests):
    srcs = []
    for k, (suffix, text) in enumerate(lib_sources(tests).items()):
        src = os.path.join(d, "%s_%s.c" % (name, suffix if len(suffix) < 60 else "ctx%d" % k))
        open(src, "w").write(text)
        srcs.append(src)
    so = os.path.join(d, name + ".so")
    p = vlib.sh(["gcc"] + CFLAGS + build["inc"] + srcs + ["-o", so, "-L" + build["libdir"], "-lcgreen"], timeout=300)
    if p.returncode != 0:
        raise vlib.Infra("generated library failed to compile:\n" + p.stdout[-1500:])
    return so


def run_runner(build, d, args, timeout=120):
    log = os.path.join(d, "exec.log")
    if os.path.exists(log):
        os.remove(log)
    env = dict(os.environ)
    env.update({"VERIF_EXEC_LOG": log, "LD_LIBRARY_PATH": build["libdir"], "ASAN_OPTIONS": "detect_leaks=0"})
    env.pop("CGREEN_NO_FORK", None); env.pop("CGREEN_PER_TEST_TIMEOUT", None)
    try:
        p = vlib.run_group([build["runner"]] + args, cwd=d, env=env, stdout=subprocess.PIPE, stderr=subprocess.STDOUT, timeout=timeout)
        rc, out = p.returncode, p.stdout.decode("latin-1")
    except subprocess.TimeoutExpired as ex:
        rc, out = None, (ex.stdout or b"").decode("latin-1")
    executed = [l.strip() for l in open(log)] if os.path.exists(log) else []
    return rc, out, executed


def glob_py(p, s):
    return re.fullmatch("".join(".*" if ch == "*" else re.escape(ch) for ch in p), s, re.S) is not None


def selected_py(tests, pat):
    if pat is None:
        return list(tests)
    cp, npat = pat.split(":", 1) if ":" in pat else ("default", pat)
    return [t for t in tests if glob_py(cp, t[0] or "default") and glob_py(npat, t[1])]


CTX = ["Runner", "Run", "Runner2", "Alpha", "A", "Sta", "Stack"]
NAMES = ["can_match_test_name", "can", "can_run", "cannot", "unexpected_call", "u", "works", "work", "a", "ab", "b_a", "zz9", "x1", "x10", "x"]


def gen_libs(chk):
    rng = chk.rng
    libs = []
    counts = [1, 2, 5, 23] + ([99, 100, 101] if chk.tier == "quick" else [99, 100, 101, 199, 200, 201])
    for k, n in enumerate(counts):
        tests, seen = [], set()
        nctx = rng.choice([1, 2, 3, 5]) if n > 1 else 1
        ctxs = rng.sample(CTX, nctx)
        use_default = n > 2 and rng.random() < 0.5
        while len(tests) < n:
            c = rng.choice(ctxs + ([None] if use_default else []))
            base = rng.choice(NAMES)
            nm = base if len(tests) < len(NAMES) else "%s_%d" % (base, len(tests))
            if (c, nm) in seen:
                continue
            seen.add((c, nm))
            tests.append((c, nm, True))
        # the same test name in every context of the library
        if nctx > 1:
            for c in ctxs:
                if (c, "shared") not in seen:
                    seen.add((c, "shared")); tests.append((c, "shared", True))
            if use_default:
                tests.append((None, "shared", True))
        # one failing test in some libraries, one test that is killed (and no failing check) in others
        if k % 3 == 2:
            i = rng.randrange(len(tests))
            tests[i] = (tests[i][0], tests[i][1], False)
        elif k % 3 == 1 and len(tests) > 1:
            i = rng.randrange(len(tests))
            tests[i] = (tests[i][0], tests[i][1], "crash")
        libs.append(("lib%d" % k, tests))
    # legal C identifiers that contain the separator of the specification symbols, or end in '_'
    libs.append(("libsep", [("Stack", "push__on_empty", True), ("Stack", "push__on_full", True), ("Stack", "pop__returns_last", True),
                            ("Stack", "pop", True), (None, "a__b", True), (None, "a", True), ("Queue", "x_", True), ("Queue", "x", True),
                            ("Queue", "y___z", True)]))
    # names in which a stretch of text is preceded by a partial, overlapping occurrence of itself (what a
    # matcher that restarts at the wrong place after a '*' gets wrong)
    libs.append(("libover", [("Version", "adds_1_1_2", True), ("Version", "adds_1_2", True), ("Version", "adds_1_1", True),
                             ("Version", "adds_2_1_2_1_2", True), ("Solo", "counts_0_0_1", True), ("Queue", "passs", True),
                             ("Queue", "pass", True), ("Queue", "aab", True), ("Queue", "aaab", True), ("Queue", "abababc", True),
                             ("Queueue", "ababc", True), (None, "xyxyz", True), (None, "xyz", True)]))
    return libs


OVERLAP_PATTERNS = ["Version:*_1_2", "Version:adds*_1_2", "Version:*_1_2*", "*:*_1_2", "Version:*_2_1_2", "Solo:*_0_1", "Queue:*ss",
                    "Queue:*aab", "Queue:a*ab", "Queue:*ababc", "Que*ue:*abc", "*ueue:ab*abc", "*xyz", "x*yz", "*:*a*b*c",
                    "Q*:p*s*s", "Version:*_9_9"]


def patterns_for(rng, tests, tier):
    pats = [None]
    if any(x[1] == "adds_1_1_2" for x in tests):
        return [None] + (OVERLAP_PATTERNS if tier == "thorough" else rng.sample(OVERLAP_PATTERNS, 10))
    t = rng.choice(tests)
    c, n = t[0] or "default", t[1]
    pats += ["%s:%s" % (c, n), "*:*", "%s:*" % c, "*:%s" % n, "%s*:%s*" % (c[:1], n[:1]), "%s:%s*" % (c, n[:2]),
             "%s:*%s" % (c, n[-2:]), "nosuch:*", "%s:nosuch" % c, "*:nosuch*", "*%s:*%s" % (c[1:], n[1:])]
    if any("__" in x[1] for x in tests):
        pats += ["Stack:push__on_full", "Stack:push", "Stack:push*", "Stack:pop", "Stack:pop__*", "a__b", "a", "Queue:x_", "Queue:x", "Queue:y___z", "*:*__*"]
    if any(x[1] == "shared" for x in tests):
        pats += ["*:shared", "%s*:shared" % c[:1], "*%s:shared" % c[-1:]]
    if not t[0]:
        pats += [n, n[:1] + "*", "*" + n[-1:]]
    else:
        pats += [n]                    # no colon: the default context only
    # patterns matching exactly one test
    names = [(x[0] or "default", x[1]) for x in tests]
    for _ in range(3):
        c2, n2 = rng.choice(names)
        for cut in range(1, len(n2) + 1):
            p = "%s:%s*" % (c2, n2[:cut])
            if len(selected_py(tests, p)) == 1:
                pats.append(p)
                break
    out, seen = [], set()
    for p in pats:
        if p not in seen:
            seen.add(p); out.append(p)
    if tier == "thorough":
        return out
    keep = [p for p in out if p is not None and p.endswith(":shared")][:2] + [p for p in out if p is not None and ("__" in p or p in ("Stack:push", "Stack:pop", "a", "Queue:x_", "Queue:x"))]
    rest = [p for p in out[1:] if p not in keep]
    return out[:1] + keep + rng.sample(rest, min(6, len(rest)))


def model_main(args, libtable):
    """args: list of str; libtable: {name: (exists, tests)}"""
    libs = " ".join("(%s %d (%s))" % (sx(n.encode()), 1 if ex else 0, " ".join("(%s %s %d)" % (sx((c or "default").encode()), sx(nm.encode()), 1 if ok is True else 0) for c, nm, ok in ts))
                    for n, (ex, ts) in libtable.items())
    return "(M (%s) (%s))" % (" ".join(sx(a.encode()) for a in args), libs)


def run_C09(chk, with_proof=True):
    build = vlib.build_repo("hooks")
    if with_proof:
        chk.prove(["Properties_C09.v", "Properties_Code_Tool.v"])
        chk.cov["trusted_base"] = TRUSTED + [
            "Properties_Code_Tool.v: test_matches_pattern() with context_name_of() and test_name_of() of tools/runner.c, translated whole into a CLite program on every run (tools/srccode.py), is proved to return RunnerTool.item_matches for every pattern of bytes 1..255 and all names, to free its two copies and to touch nothing else (Fine: no access outside a block, no use after free); trusted in that link: the translator, CLite's models of strchr, string_dup, free and of fnmatch as glob (literals and '*' only, validated against fnmatch(3) by the correspondence run); the same program is also run by the extracted interpreter on enumerated patterns and names",
            "axioms: see coverage.print_assumptions"]
        import codetie
        codetie.matches(chk)
    rng = chk.rng
    d = vlib.private_dir("c09")
    try:
        libs = gen_libs(chk)
        with ThreadPoolExecutor(vlib.NPROC) as ex:
            list(ex.map(lambda l: build_lib(build, d, l[0], l[1]), libs))
        table = {n + ".so": (True, ts) for n, ts in libs}
        # ---- discovery: every defined test exactly once, names recovered
        for n, ts in libs:
            rc, out, _ = run_runner(build, d, ["--no-run", "--verbose", n + ".so"])
            found = sorted(re.findall(r"Discovered (\S+):(\S+) \((\S+)\)", out))
            want = sorted(((c or "default"), nm, "CgreenSpec__%s__%s__" % (c or "default", nm)) for c, nm, ok in ts)
            chk.case(("discover", n, len(ts)))
            chk.count("discover:n=%d" % len(ts))
            if found != want:
                miss = [w for w in want if w not in found][:3]
                extra = [f for f in found if f not in want][:3]
                chk.violation("discovery", "library with %d tests: discovered %d entries; missing %s, unexpected or duplicated %s" % (len(ts), len(found), miss, extra),
                              {"library_source": lib_source(ts)[:4000], "how": "compile as a shared library, cgreen-runner --no-run --verbose lib.so"})
            ml = ["(P %s %s)" % (sx((c or "default").encode()), sx(nm.encode())) for c, nm, ok in ts[:40]]
            for (c, nm, ok), m in zip(ts[:40], vlib.run_model("tool", ml)):
                chk.cov["disagreements_checked"] += 1
                if m != "%s:%s" % (c or "default", nm):
                    chk.disagreement("model parse_spec(mangle %s %s) = %s" % (c, nm, m), {"case": (c, nm)})
        # ---- selection: library x pattern x reporter option
        runs = []
        for n, ts in libs:
            for pat in patterns_for(rng, ts, chk.tier):
                opt = rng.choice([[], [], ["--xml", "o"], ["-s", "common"], ["--quiet"], ["--libxml2", "o2"]])
                runs.append((opt, [(n + ".so", pat)]))
        # several libraries on one command line, each with or without its own pattern; a missing library
        for _ in range(6 if chk.tier == "quick" else 60):
            k = rng.choice([2, 2, 3])
            chosen = rng.sample(libs, k)
            pairs = []
            for n, ts in chosen:
                pats = patterns_for(rng, ts, "quick")
                pairs.append((n + ".so", rng.choice(pats)))
            if rng.random() < 0.3:
                pairs.insert(rng.randrange(len(pairs) + 1), ("missing%d.so" % rng.randrange(9), None))
            runs.append((rng.choice([[], ["-s", "all"], ["--xml", "m"]]), pairs))
        # a pattern on one library and none on the next (and the other way round)
        for _ in range(4 if chk.tier == "quick" else 30):
            (n1, t1), (n2, t2), (n3, t3) = rng.sample(libs, 3)
            p1 = rng.choice([p for p in patterns_for(rng, t1, "quick") if p is not None])
            p3 = rng.choice([p for p in patterns_for(rng, t3, "quick") if p is not None])
            runs.append(([], [(n1 + ".so", p1), (n2 + ".so", None)]))
            runs.append(([], [(n1 + ".so", None), (n2 + ".so", p1 if selected_py(t2, p1) else "*:*")]))
            runs.append((rng.choice([[], ["--xml", "k"]]), [(n1 + ".so", p1), (n2 + ".so", None), (n3 + ".so", p3)]))
        # an earlier library with a test that ends abnormally (no failing check anywhere), the last
        # library restricted to a single passing test: the command must still fail
        crashlibs = [(n, ts) for n, ts in libs if any(ok == "crash" for c, nm, ok in ts)]
        goodlibs = [(n, ts) for n, ts in libs if all(ok is True for c, nm, ok in ts)]
        for (n1, t1) in crashlibs[:2]:
            for (n2, t2) in goodlibs[:2]:
                c2, nm2, _ = t2[0]
                runs.append(([], [(n1 + ".so", None), (n2 + ".so", "%s:%s" % (c2 or "default", nm2))]))
                runs.append((["--xml", "c"], [(n1 + ".so", None), (n2 + ".so", None)]))
        runs.append(([], [("missing.so", None)]))

        def do(run):
            opt, pairs = run
            dd = os.path.join(d, "r%d" % id(run))
            os.makedirs(dd, exist_ok=True)
            args = list(opt)
            for lib, pat in pairs:
                args.append(os.path.join("..", lib) if not lib.startswith("missing") else lib)
                if pat is not None:
                    args.append(pat)
            res = run_runner(build, dd, args)
            shutil.rmtree(dd, ignore_errors=True)
            return args, res
        with ThreadPoolExecutor(vlib.NPROC) as ex:
            results = list(ex.map(do, runs))
        mlines = []
        for (opt, pairs), (args, res) in zip(runs, results):
            margs = []
            for lib, pat in pairs:
                margs.append(lib)
                if pat is not None:
                    margs.append(pat)
            t2 = dict(table)
            for lib, pat in pairs:
                if lib.startswith("missing"):
                    t2[lib] = (False, [])
            used = {lib: t2[lib] for lib, _ in pairs}
            mlines.append(model_main(margs, used))
        models = vlib.run_model("tool", mlines)
        for (opt, pairs), (args, (rc, out, executed)), m in zip(runs, results, models):
            chk.case((tuple(opt), tuple(pairs)))
            chk.count("libraries:%d" % len(pairs))
            chk.count("option:" + (opt[0] if opt else "none"))
            chk.cov["disagreements_checked"] += 1
            rp = {"command": "cgreen-runner " + " ".join(args), "exit": rc, "executed": executed[:50], "output": out[-1200:],
                  "libraries": {lib: lib_source(table[lib][1])[:3000] for lib, _ in pairs if lib in table},
                  "how": "compile each library source with gcc -shared -fPIC against /repo/include, run the command with VERIF_EXEC_LOG=<file>"}
            if rc is None:
                chk.violation("runner-hang", "cgreen-runner did not terminate: %s" % " ".join(args), rp)
                continue
            # the property's oracle.  The command line is read as cgreen-runner documents it: an argument that is not an
            # existing file is the pattern of the library before it, when that library has none yet - so a missing
            # library written right after a library without a pattern is that library's pattern
            eff = []
            for lib, pat in pairs:
                if lib.startswith("missing") and eff and eff[-1][1] is None and not eff[-1][0].startswith("missing"):
                    eff[-1] = (eff[-1][0], lib)
                    if pat is not None:
                        eff.append((pat, None) if False else ("missing-pattern-" + pat, None))
                else:
                    eff.append((lib, pat))
            want_exec, want_fail = [], False
            for lib, pat in eff:
                if lib.startswith("missing"):
                    want_fail = True
                    break
                sel = selected_py(table[lib][1], pat)
                chk.count("selected:%s" % ("0" if not sel else "1" if len(sel) == 1 else "many"))
                if not sel:
                    want_fail = True
                want_exec += ["%s:%s" % (c or "default", nm) for c, nm, ok in sel]
                if any(ok is not True for c, nm, ok in sel):
                    want_fail = True
            mfail, mex = m.split(" | ", 1)
            mexec = []
            for part in mex.split(" ; "):
                if " =" in part:
                    mexec += part.split(" =", 1)[1].split()
            mexec.sort()
            if rc is not None and rc < 0 and set(executed) <= set(mexec):
                # a pattern that selects exactly one test runs it in the runner's own process (run_single_test): when that
                # test kills its process the runner is gone, with a failing status, and the libraries after it are not
                # looked at.  RunnerTool.main_m does not model the death of the runner itself; nothing is silent here.
                chk.count("runner-killed-by-the-single-test-it-ran-in-process")
            elif sorted(executed) != mexec or (rc != 0) != (mfail == "1"):
                chk.disagreement("%s: implementation exit %s executed %d tests, model fail=%s executed %d" % (" ".join(args), rc, len(executed), mfail, len(mexec)), rp)
            if sorted(executed) != sorted(want_exec):
                notrun = sorted(set(want_exec) - set(executed))[:4]
                extra = sorted(set(executed) - set(want_exec))[:4]
                twice = sorted({x for x in executed if executed.count(x) > 1})[:4]
                # tests of libraries behind a missing library are not in want_exec (the run is refused there, loudly, which
                # the statement allows); every other selected test has to run, whatever happened in the libraries before
                # it - unless the runner's own process was killed by the single test it ran in-process
                killed = rc is not None and rc < 0
                if rc == 0 or extra or twice or (notrun and not killed):
                    chk.violation("selection" if rc == 0 else "selection-extra" if (extra or twice) else "selection-not-run",
                                  "%s (exit %s): selected but not executed %s, executed but not selected %s, executed more than once %s" % (
                        " ".join(args), rc, notrun, extra, twice), rp)
            if (rc != 0) != want_fail:
                chk.violation("exit-status", "%s: exit status %s, expected %s (nothing selected / missing library / a selected test fails => failure)" % (" ".join(args), rc, "failure" if want_fail else "success"), rp)
            chk.sample({"command": " ".join(args), "exit": rc, "executed": len(executed)}, limit=5)
    finally:
        shutil.rmtree(d, ignore_errors=True)
    # ---- glob model vs fnmatch(3)
    libc = ctypes.CDLL(None)
    libc.fnmatch.argtypes = [ctypes.c_char_p, ctypes.c_char_p, ctypes.c_int]
    pairs = []
    for _ in range(1500 if chk.tier == "quick" else 20000):
        p = "".join(rng.choice("ab_*") for _ in range(rng.choice([0, 1, 2, 3, 5, 8])))
        s = "".join(rng.choice("ab_") for _ in range(rng.choice([0, 1, 2, 3, 5, 9])))
        pairs.append((p, s))
    gm = vlib.run_model("tool", ["(G %s %s)" % (sx(p.encode()), sx(s.encode())) for p, s in pairs])
    for (p, s), m in zip(pairs, gm):
        chk.case(("glob", p, s), nontrivial="*" in p)
        r = "1" if libc.fnmatch(p.encode(), s.encode(), 0) == 0 else "0"
        chk.cov["disagreements_checked"] += 1
        if r != m:
            chk.disagreement("fnmatch(%r, %r) = %s, model glob = %s" % (p, s, r, m), {"pattern": p, "string": s})
    chk.count("glob-vs-fnmatch", len(pairs))


def check_C09(chk):
    run_C09(chk)
    return chk.finish()


def verdict_cases(chk):
    """C01's runner part: the exit status of cgreen-runner over one or several generated libraries
    (failing checks, killed tests, missing libraries, nothing selected) - run_C09 without its proof files."""
    run_C09(chk, with_proof=False)


CHECKS = {"C09": check_C09}
