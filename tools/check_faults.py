"""C19: resource failures never turn into a passing verdict (single injected faults through an
LD_PRELOAD shim, on scenarios that contain a failing test)."""
import os, shutil, subprocess
from concurrent.futures import ThreadPoolExecutor
import vlib, layerc as L

TRUSTED = [
    "Coq 8.16.1 kernel (full .vo build; no native_compute)",
    "Faults.v is a hand-written Gallina model of the error handling on the result path (src/messaging.c, src/posix_cgreen_pipe.c, src/reporter.c: read_reporter_results, src/posix_runner_platform.c: in_child_process) on top of the runner model's read_results; which calls can fail silently is translated from source (tools/srcfacts_c19.py)",
    "extraction: ExtrOcamlBasic only",
    "fault delivery: harness/faultshim.c (LD_PRELOAD; the k-th call of fork, pipe, fcntl, tmpfile, write/read on the result pipe, malloc inside send/receive_cgreen_message, counted across the run's processes in shared memory) - the shim, dladdr and the dynamic linker are trusted",
    "modelled, not verified: what the kernel does after a failed call; a theorem cannot exhibit a hang - termination is observed under a time limit",
]

ASAN_RT = subprocess.run(["gcc", "-print-file-name=libasan.so"], stdout=subprocess.PIPE, text=True).stdout.strip()
if not os.path.isabs(ASAN_RT):
    ASAN_RT = ""

SITES = ["fork", "pipe", "fcntl", "tmpfile", "write", "read", "malloc_send", "malloc_recv"]


def scenarios(chk):
    rng = chk.rng
    out = []
    T = L.Test
    # the failing test first / in the middle / last; results before and after the failure
    out.append(("fail-middle", L.Suite(0, children=[T(1, body=[("c", 1)]), T(2, body=[("c", 1), ("c", 0), ("c", 1)]), T(3, body=[("c", 1)])])))
    out.append(("fail-first", L.Suite(0, children=[T(1, body=[("c", 0)]), T(2, body=[("c", 1)])])))
    out.append(("fail-last-nested", L.Suite(0, children=[L.Suite(1, children=[T(1, body=[("c", 1)])]), T(2, body=[("c", 1), ("c", 0)])])))
    out.append(("only-failure", L.Suite(0, children=[T(1, body=[("c", 0)])])))
    # a test that dies (its results cannot be obtained: it must not count as a success) right after a sub-suite
    out.append(("crash-after-nested", L.Suite(0, children=[L.Suite(1, children=[T(1, body=[("c", 1)])]), T(2, body=[("c", 1), ("die", "sig", 9)])])))
    out.append(("crash-between-nested", L.Suite(0, children=[L.Suite(1, children=[T(1, body=[("c", 1)])]), T(2, body=[("die", "sig", 9)]),
                                                              L.Suite(2, children=[T(3, body=[("c", 1)])])])))
    # more results than the channel holds: with a channel left in blocking mode the writer would wait for ever
    out.append(("overflow", L.Suite(0, children=[T(1, body=[("c", 0), ("raw", "checks 6000 1")]), T(2, body=[("c", 1)])])))
    if chk.tier == "thorough":
        out.append(("many-results", L.Suite(0, children=[T(1, body=[("c", 1)] * 30 + [("c", 0)] + [("c", 1)] * 30), T(2, body=[("c", 1)])])))
        for i in range(6):
            n = rng.choice([2, 3, 5])
            tests = [T(j + 1, body=[("c", 1)] * rng.choice([0, 1, 3])) for j in range(n)]
            k = rng.randrange(n)
            tests[k].body.insert(rng.randrange(len(tests[k].body) + 1), ("c", 0))
            out.append(("random-%d" % i, L.Suite(0, children=tests)))
    return out


def run(drv, shim, root, reporter, mode, fault=None, timeout=20, asan=True):
    d = vlib.private_dir("flt")
    try:
        log = os.path.join(d, "events.log")
        open(os.path.join(d, "case.scn"), "w").write(L.scn_text(root, reporter, mode, log))
        env = dict(os.environ)
        env.pop("CGREEN_NO_FORK", None); env.pop("CGREEN_PER_TEST_TIMEOUT", None)
        if mode == "inproc":
            env["CGREEN_NO_FORK"] = "1"
        env["LD_PRELOAD"] = (ASAN_RT + " " if (ASAN_RT and asan) else "") + shim
        env["ASAN_OPTIONS"] = "detect_leaks=0:exitcode=99:abort_on_error=0"
        env["UBSAN_OPTIONS"] = "halt_on_error=1:exitcode=99"
        env["VERIF_FAULT_LOG"] = os.path.join(d, "counts")
        if fault:
            env["VERIF_FAULT"] = "%s:%d" % fault[:2] + (":" + fault[2] if len(fault) > 2 and fault[2] else "")
        try:
            p = vlib.run_group([drv, "case.scn"], cwd=d, env=env, stdout=subprocess.PIPE, stderr=subprocess.PIPE, timeout=timeout)
            rc, out, err = p.returncode, p.stdout.decode("latin-1"), p.stderr.decode("latin-1")
        except subprocess.TimeoutExpired as ex:
            rc, out, err = None, (ex.stdout or b"").decode("latin-1"), (ex.stderr or b"").decode("latin-1")
            subprocess.run(["pkill", "-f", os.path.join(d, "case.scn")], stdout=subprocess.DEVNULL, stderr=subprocess.DEVNULL)
        files = {f: open(os.path.join(d, f), "rb").read() for f in os.listdir(d) if f.endswith(".xml")}
        counts = {"__files": files}
        cp = os.path.join(d, "counts")
        if os.path.exists(cp):
            for l in open(cp):
                k, v = l.split()
                counts[k] = int(v)
        tdone = []
        if os.path.exists(log):
            for l in open(log, errors="replace"):
                parts = l.rstrip("\n").split(" ")
                if len(parts) >= 7 and parts[1] == "tdone":
                    tdone.append((parts[2], tuple(map(int, parts[3:7]))))
        return rc, out, err, counts, tdone
    finally:
        shutil.rmtree(d, ignore_errors=True)


def counts_at_creation(label):
    """fcntl() calls made while the result channel is created (cgreen_pipe_open): the rest are in cgreen_pipe_read()"""
    return 1


def check_C19(chk):
    bh = vlib.build_repo("hooks")
    build = vlib.build_repo("asan")
    drv = vlib.build_driver("scn_driver", build, libs=("-lcgreen", "-lxml2"))
    shim = vlib.build_driver("faultshim", bh, shared=True, libs=("-ldl",))
    drv_plain = vlib.build_driver("scn_driver", bh, libs=("-lcgreen", "-lxml2"))
    import check_containers as CC
    chk.prove(["Properties_C19.v"])
    chk.cov["trusted_base"] = TRUSTED + ["axioms: see coverage.print_assumptions"]
    jobs = []
    for label, root in scenarios(chk):
        for rep in ("text", "xml"):
            for mode in (("forked", "inproc") if label in ("fail-middle", "only-failure") else ("forked",)):
                rc, out, err, counts, _ = run(drv_plain, shim, root, rep, mode, asan=False)
                chk.case((label, rep, mode, "reference"))
                if rc != 1:
                    raise vlib.Infra("reference run of %s/%s/%s exits %s" % (label, rep, mode, rc))
                counts.pop("__files", None)
                for site in SITES:
                    n = counts.get(site, 0)
                    chk.count("reached:%s" % site, n)
                    ks = range(1, n + 1) if ((chk.tier == "thorough" and n <= 200) or n <= 12) else sorted(set([1, 2, 3, n // 2, n - 1, n]))
                    if label == "overflow":
                        ks = [1] if site in ("fork", "pipe", "fcntl") else [k for k in (1, 2) if k <= n] if site in ("write", "malloc_send") else []
                    for k in ks:
                        jobs.append((label, root, rep, mode, site, k, False, ""))
                        if not site.startswith("malloc") and label != "overflow":
                            jobs.append((label, root, rep, mode, site, k, True, ""))      # again under ASan+UBSan
                        # other ways a transfer can fail: only part of the record goes through, other error codes
                        if site in ("write", "read") and label != "overflow" and mode == "forked":
                            if chk.tier == "thorough":
                                hows = ["s%d" % n for n in range(1, 16)] + ["eEINTR", "eEPIPE", "eENOSPC"] + (["eEAGAIN"] if site == "write" else [])
                            else:
                                hows = ["s3", "s8", "s11", "eEINTR"] + (["eEAGAIN"] if site == "write" else []) if rep == "text" or k % 2 else ["s1", "s9", "s15"]
                            for how in hows:
                                jobs.append((label, root, rep, mode, site, k, False, how))
    with ThreadPoolExecutor(vlib.NPROC) as ex:
        results = list(ex.map(lambda j: run(drv if j[6] else drv_plain, shim, j[1], j[2], j[3], fault=(j[4], j[5], j[7]), asan=j[6]), jobs))
    for (label, root, rep, mode, site0, k, san_build, how), (rc, out, err, counts, tdone) in zip(jobs, results):
        chk.case((label, rep, mode, site0, k, san_build, how))
        site = site0 + (":" + how if how else "")
        chk.count("fault:%s" % site0)
        if how:
            chk.count("fault-kind:%s" % ("short transfer" if how[0] == "s" else how[1:]))
        chk.count("build:%s" % ("asan" if san_build else "plain"))
        chk.count("mode:%s" % mode)
        chk.cov["disagreements_checked"] += 1
        rp = {"scenario": L.scn_text(root, rep, mode, "events.log"), "fault": "%s:%d%s" % (site0, k, ":" + how if how else ""), "reporter": rep, "mode": mode,
              "exit": rc, "stdout": out[-600:], "stderr": err[-400:],
              "how": "VERIF_FAULT=%s:%d%s LD_PRELOAD=_work/bin-hooks/faultshim.so %s_work/bin-hooks/scn_driver <scenario file>" % (site0, k, ":" + how if how else "", "CGREEN_NO_FORK=1 " if mode == "inproc" else "")}
        fired = counts.get("fired", None)
        outcome = "hang" if rc is None else "success" if rc == 0 else "signal %d" % -rc if rc < 0 else "failure status %d" % rc
        chk.count("outcome:%s:%s" % (site0, "hang" if rc is None else "success" if rc == 0 else "killed" if rc < 0 else "failure"))
        san = CC.asan_summary(err) or CC.asan_summary(out)
        if san:
            chk.violation("ub-%s" % site, "%s: after call %d of %s failed cgreen runs into undefined behaviour: %s (%s reporter, %s)" % (label, k, site, san, rep, mode), dict(rp, sanitizer=san))
        if rc is None:
            chk.violation("hang-%s" % site, "%s: the run does not terminate when call %d of %s fails (%s reporter, %s)" % (label, k, site, rep, mode), rp)
        elif rc == 1 and rep == "xml" and mode == "forked" and not san:
            # the run went on to the end: its report must not show the failing test as a plain pass
            import xml.etree.ElementTree as ET
            failing = {t.name for s_, t in root.tests() if ("c", 0) in t.body or any(a[0] == "die" for a in t.body)}
            shown = {}
            bad_doc = False
            for fn, data in counts.get("__files", {}).items():
                try:
                    for tc in ET.fromstring(data).iter("testcase"):
                        shown[tc.get("name")] = bool(tc.findall("failure") or tc.findall("error"))
                except ET.ParseError:
                    bad_doc = True
            reading_side_x = site0 == "read" or (site0 == "fcntl" and k > counts_at_creation(label))
            for name in failing:
                if shown.get(name) is False and not bad_doc and reading_side_x:
                    chk.count("outside-the-property:xml-pass-after-%s-failure" % site0)
                elif shown.get(name) is False and not bad_doc:
                    chk.violation("xml-report-pass-%s" % site, "%s: call %d of %s fails; the run goes on and its XML report shows the failing test %s as a plain pass" % (label, k, site, name), rp)
        # the property lists the failures it is about: creating a test process, creating the result channel or a
        # temporary file, allocating memory for a record, writing to the channel.  Failures on the reading side (read(),
        # the fcntl() in cgreen_pipe_read()) are injected too, but what follows from them is outside the property:
        # it is recorded, not raised
        reading_side = site0 == "read" or (site0 == "fcntl" and k > counts_at_creation(label))
        if reading_side and (rc == 0):
            chk.count("outside-the-property:success-after-%s-failure" % site0)
            chk.notes.append("outside the property's list of failures: %s, call %d of %s fails on the reading side and the run reports success" % (label, k, site)) if len(chk.notes) < 12 else None
        elif rc == 0:
            chk.violation("success-%s" % site, "%s: the scenario contains a failing or dying test, call %d of %s fails, and the run reports success (%s reporter, %s)" % (label, k, site, rep, mode), rp)
        if not san_build and not how and mode == "forked" and rep == "text" and site in ("write", "malloc_send") and label != "overflow":
            model_compare(chk, label, root, site, k, rc, tdone, rp)
        chk.sample({"scenario": label, "fault": "%s:%d" % (site, k), "reporter": rep, "mode": mode, "outcome": outcome}, limit=6)
    return chk.finish()


def model_compare(chk, label, root, site, k, rc, tdone, rp):
    """the k-th write / send allocation of a forked flat run belongs to one test: the model says what the
    runner then obtains for that test"""
    flat = [t for s, t in root.tests()]
    if any(not isinstance(c, L.Test) for c in root.children):
        return
    idx = k - 1
    for t in flat:
        recs = ["p" if a == ("c", 1) else "f" for a in t.body if a[0] == "c"]
        m = recs + ["c"]
        if idx < len(m):
            fault = "(write %d)" % idx if site == "write" else "(send_alloc %d)" % idx
            pred = vlib.run_model("faults", ["(%s (%s))" % (fault, " ".join(m))])[0].split()
            chk.cov["disagreements_checked"] += 1
            chk.count("model-compared:%s" % site)
            got = dict(tdone).get(t.name)
            if pred[0] == "seen" and got is not None:
                p, f, s, e = map(int, pred[1:5])
                e += 1 if pred[5] == "notreceived" else 0
                if got != (p, f, s, e):
                    chk.disagreement("%s fault %s:%d hits %s record %d: the runner credits %s, the model %s" % (label, site, k, t.name, idx, got, (p, f, s, e)), rp)
            if pred[-1] == "notsuccess" and rc == 0:
                chk.disagreement("%s fault %s:%d: model says the run cannot succeed, exit status 0" % (label, site, k), rp)
            return
        idx -= len(m)


CHECKS = {"C19": check_C19}
