"""Shared machinery for every check: building /repo's working tree (hooks on), the Coq
project, the extracted OCaml model, harness drivers; evidence, known findings, verdicts.

Everything is rebuilt from /repo's *current working tree* on every check (cmake + ninja are
incremental, so an unchanged tree costs ~1 s)."""
import fcntl, hashlib, json, os, random, re, shutil, subprocess, sys, time, contextlib

ROOT = os.path.dirname(os.path.dirname(os.path.abspath(__file__)))
REPO = os.environ.get("VERIF_REPO", "/repo")
WORK = os.path.join(ROOT, "_work")
COQ = os.path.join(ROOT, "coq")
OCAML = os.path.join(ROOT, "ocaml")
HARNESS = os.path.join(ROOT, "harness")
GUARD = "CGREEN_VERIF"
NPROC = os.cpu_count() or 4


def sh(cmd, cwd=None, timeout=600, env=None, input=None, check=False):
    """Run a command (list or string); returns CompletedProcess with text output."""
    p = subprocess.run(cmd, cwd=cwd, shell=isinstance(cmd, str), stdout=subprocess.PIPE,
                       stderr=subprocess.STDOUT, timeout=timeout, env=env, input=input,
                       text=True, errors="replace")
    if check and p.returncode != 0:
        raise RuntimeError("command failed (%s): %s\n%s" % (p.returncode, cmd, p.stdout[-4000:]))
    return p


def run_group(cmd, timeout=60, **kw):
    """subprocess.run in a process group of its own; whatever the command leaves behind (test processes that
    spin after their runner was stopped or has gone) is killed when it returns or times out"""
    import signal
    proc = subprocess.Popen(cmd, start_new_session=True, **kw)
    try:
        out, err = proc.communicate(input=kw.pop("_input", None), timeout=timeout)
        return subprocess.CompletedProcess(cmd, proc.returncode, out, err)
    except subprocess.TimeoutExpired as ex:
        try:
            os.killpg(proc.pid, signal.SIGKILL)
        except OSError:
            pass
        out, err = proc.communicate()
        raise subprocess.TimeoutExpired(cmd, timeout, output=out, stderr=err)
    finally:
        try:
            os.killpg(proc.pid, signal.SIGKILL)
        except OSError:
            pass


@contextlib.contextmanager
def locked(name):
    os.makedirs(WORK, exist_ok=True)
    f = open(os.path.join(WORK, name + ".lock"), "w")
    fcntl.flock(f, fcntl.LOCK_EX)
    try:
        yield
    finally:
        fcntl.flock(f, fcntl.LOCK_UN)
        f.close()


class Infra(Exception):
    """Infrastructure failure (build of /repo or of the framework): no verdict possible."""


# ------------------------------------------------------------------------------------------
# building /repo
# ------------------------------------------------------------------------------------------
BUILD_KINDS = {
    # kind -> (C flags, CXX flags, build type)
    "hooks": ("-Wno-error -D%s" % GUARD, "-Wno-error -D%s" % GUARD, "RelWithDebInfo"),
    "asan": ("-Wno-error -D%s -O1 -g -fno-omit-frame-pointer -fsanitize=address,undefined "
             "-fno-sanitize-recover=all" % GUARD,
             "-Wno-error -D%s -O1 -g -fno-omit-frame-pointer -fsanitize=address,undefined "
             "-fno-sanitize-recover=all" % GUARD, "Debug"),
}


def build_repo(kind="hooks", targets=("cgreen_shared", "cgreen-runner")):
    """cmake+ninja build of /repo's working tree into _work/build-<kind>.  Returns a dict
    with the paths drivers need.  Raises Infra when the tree does not build."""
    bdir = os.path.join(WORK, "build-" + kind)
    cflags, cxxflags, btype = BUILD_KINDS[kind]
    with locked("build-" + kind):
        if not os.path.exists(os.path.join(bdir, "build.ninja")):
            os.makedirs(bdir, exist_ok=True)
            p = sh(["cmake", "-G", "Ninja", "-S", REPO, "-B", bdir,
                    "-DCMAKE_BUILD_TYPE=" + btype,
                    "-DCMAKE_C_FLAGS=" + cflags, "-DCMAKE_CXX_FLAGS=" + cxxflags,
                    "-DCGREEN_WITH_LIBXML2=ON", "-DCGREEN_WITH_XML=ON",
                    "-DCGREEN_WITH_UNIT_TESTS=ON"], timeout=300)
            if p.returncode != 0:
                shutil.rmtree(bdir, ignore_errors=True)
                raise Infra("cmake configure failed:\n" + p.stdout[-3000:])
        p = sh(["cmake", "--build", bdir, "-j", str(NPROC), "--target"] + list(targets),
               timeout=900)
        if p.returncode != 0:
            raise Infra("build of /repo (%s) failed:\n%s" % (kind, p.stdout[-4000:]))
    libdir = os.path.join(bdir, "src")
    return {
        "kind": kind, "bdir": bdir, "libdir": libdir,
        "lib": os.path.join(libdir, "libcgreen.so"),
        "runner": os.path.join(bdir, "tools", "cgreen-runner"),
        "inc": ["-I" + os.path.join(REPO, "include"), "-I" + REPO, "-I" + os.path.join(REPO, "src"),
                "-I" + bdir, "-I" + os.path.join(REPO, "tools")],
        "cflags": cflags,
    }


def _newer(target, sources):
    if not os.path.exists(target):
        return False
    t = os.path.getmtime(target)
    return all(os.path.getmtime(s) <= t for s in sources if os.path.exists(s))


def build_driver(name, build, sources=None, extra=(), cxx=False, libs=("-lcgreen",), shared=False):
    """Compile a harness driver against the freshly built library."""
    sources = sources or [os.path.join(HARNESS, name + (".cpp" if cxx else ".c"))]
    outdir = os.path.join(WORK, "bin-" + build["kind"])
    os.makedirs(outdir, exist_ok=True)
    out = os.path.join(outdir, name + (".so" if shared else ""))
    san = [f for f in build["cflags"].split() if f.startswith("-fsanitize") or f.startswith("-fno-sanitize")
           or f == "-fno-omit-frame-pointer"]
    cmd = (["g++" if cxx else "gcc", "-g", "-O1", "-D" + GUARD, "-Wno-format-security"] + san +
           (["-shared", "-fPIC"] if shared else []) + list(extra) +
           build["inc"] + sources + ["-o", out, "-L" + build["libdir"],
                                     "-Wl,-rpath," + build["libdir"]] + list(libs))
    with locked("drv-" + build["kind"] + "-" + name):
        # always relink: headers of /repo may have changed and it takes well under a second
        p = sh(cmd, timeout=300)
        if p.returncode != 0:
            raise Infra("driver %s failed to build:\n%s" % (name, p.stdout[-4000:]))
    return out


# ------------------------------------------------------------------------------------------
# Coq project + extracted model
# ------------------------------------------------------------------------------------------
def gen_facts():
    """Run the translator: /repo sources -> coq/Gen/*.v (write-if-changed)."""
    import srcfacts, srccode
    st = srcfacts.generate(REPO, os.path.join(COQ, "Gen"), os.path.join(COQ, "Pinned"))
    st.update(srccode.generate(REPO, os.path.join(COQ, "Gen"), os.path.join(COQ, "Pinned")))
    return st


def coq_make(targets=None, timeout=1500):
    """Full .vo build (never -vos) of the given targets (default: everything) with -k so one
    broken file does not hide the others.  Returns (ok: bool, log)."""
    with locked("coq"):
        if not os.path.exists(os.path.join(COQ, "Makefile")) or \
           os.path.getmtime(os.path.join(COQ, "Makefile")) < os.path.getmtime(os.path.join(COQ, "_CoqProject")):
            sh("coq_makefile -f _CoqProject -o Makefile", cwd=COQ, check=True)
        cmd = ["make", "-k", "-j", str(NPROC)] + (list(targets) if targets else [])
        p = sh(cmd, cwd=COQ, timeout=timeout)
        return p.returncode == 0, p.stdout


def coq_recheck(vfile, timeout=600):
    """Re-compile one property file unconditionally so that its Print Assumptions output is
    from this run.  Returns (ok, output)."""
    with locked("coq"):
        base = vfile[:-2]
        for ext in (".vo", ".vok", ".vos", ".glob"):
            with contextlib.suppress(FileNotFoundError):
                os.remove(os.path.join(COQ, base + ext))
        p = sh(["make", base + ".vo"], cwd=COQ, timeout=timeout)
        return p.returncode == 0, p.stdout


def ocaml_driver():
    """Build ocaml/driver from the extracted model (coq/Extract.v writes ocaml/model.ml)."""
    with locked("ocaml"):
        hs = sorted(f for f in os.listdir(OCAML) if f.startswith("h_") and f.endswith(".ml"))
        hs = [f for f in hs if f != "h_code.ml"] + ["h_code.ml"]       # h_code uses h_runner's tree reader
        files = ["model.mli", "model.ml", "util.ml"] + hs + ["driver.ml"]
        srcs = [os.path.join(OCAML, f) for f in files]
        out = os.path.join(OCAML, "driver")
        if _newer(out, srcs):
            return out
        p = sh(["ocamlfind", "ocamlopt", "-O2", "-w", "-a", "-package", "str", "-linkpkg"] + files +
               ["-o", "driver"], cwd=OCAML, timeout=600)
        if p.returncode != 0:
            raise Infra("ocaml driver failed to build:\n" + p.stdout[-3000:])
        return out


def run_model(sub, lines, timeout=600):
    """Feed one case per line to `driver <sub>`; returns the list of result lines.  Large inputs are
    split over the cores (the extracted model computes on Coq's unary/binary numbers)."""
    if len(lines) > 4000:
        from concurrent.futures import ThreadPoolExecutor
        n = min(NPROC, (len(lines) + 1999) // 2000)
        size = (len(lines) + n - 1) // n
        chunks = [lines[i:i + size] for i in range(0, len(lines), size)]
        with ThreadPoolExecutor(n) as ex:
            parts = list(ex.map(lambda c: run_model(sub, c, timeout=max(timeout, 3000)), chunks))
        return [x for part in parts for x in part]
    drv = ocaml_driver()
    p = subprocess.run([drv, sub], input="\n".join(lines) + "\n", stdout=subprocess.PIPE,
                       stderr=subprocess.PIPE, text=True, timeout=timeout)
    if p.returncode != 0:
        raise Infra("model driver %s failed: %s" % (sub, p.stderr[-2000:]))
    out = p.stdout.split("\n")
    if out and out[-1] == "":
        out.pop()
    if len(out) != len(lines):
        raise Infra("model driver %s: %d results for %d cases" % (sub, len(out), len(lines)))
    return out


FORBIDDEN = re.compile(r"\b(Admitted|admit|Axiom|Axioms|Parameter|Parameters|Conjecture|Conjectures|"
                       r"Unset\s+Guard|Unset\s+Positivity|Unset\s+Universe|bypass_check|"
                       r"Admit\s+Obligations|native_compute)\b")


def strip_coq_comments(s):
    out, depth, i = [], 0, 0
    while i < len(s):
        if s.startswith("(*", i):
            depth += 1; i += 2
        elif s.startswith("*)", i) and depth:
            depth -= 1; i += 2
        else:
            if depth == 0:
                out.append(s[i])
            i += 1
    return "".join(out)


def grep_gate():
    """No Admitted/admit/Axiom/Parameter/... anywhere in the development (comments ignored)."""
    bad = []
    for d, _, fs in os.walk(COQ):
        for f in fs:
            if f.endswith(".v"):
                txt = strip_coq_comments(open(os.path.join(d, f)).read())
                for m in FORBIDDEN.finditer(txt):
                    bad.append("%s: %s" % (os.path.relpath(os.path.join(d, f), COQ), m.group(0)))
    return bad


# ------------------------------------------------------------------------------------------
# known findings
# ------------------------------------------------------------------------------------------
def known_findings(pid):
    """Lines `known: property=<id> sig=<signature> <text>` of known_findings.txt."""
    res = {}
    path = os.path.join(ROOT, "known_findings.txt")
    if os.path.exists(path):
        for l in open(path):
            m = re.match(r"known:\s+property=(\S+)\s+sig=(\S+)\s+(.*)", l.strip())
            if m and m.group(1) == pid:
                res[m.group(2)] = m.group(3)
    return res


# ------------------------------------------------------------------------------------------
# the check object
# ------------------------------------------------------------------------------------------
class Check:
    def __init__(self, pid, tier, seed):
        self.pid, self.tier, self.seed = pid, tier, seed
        self.t0 = time.time()
        self.rng = random.Random(seed * 1000003 + int(hashlib.md5(pid.encode()).hexdigest()[:6], 16))
        self.violations = []      # (signature, description, replay dict)
        self.known_hit = {}
        self.known = known_findings(pid)
        self.cov = {"obligations": 0, "discharged": 0, "checker_cmd": "", "trusted_base": [],
                    "evaluations": 0, "distinct_nontrivial": 0, "rule": "", "samples": [],
                    "disagreements_checked": 0}
        self.assumptions = []
        self.notes = []
        self.proof_broken = []    # names of property files / theorems that no longer check
        self.corr_broken = []     # correspondence disagreements (model vs implementation)
        self._distinct = set()
        self.dist = {}

    # -- bookkeeping ---------------------------------------------------------------------
    def count(self, key, n=1):
        self.dist[key] = self.dist.get(key, 0) + n

    def case(self, canon, nontrivial=True):
        self.cov["evaluations"] += 1
        if nontrivial:
            self._distinct.add(hashlib.md5(repr(canon).encode()).hexdigest())

    def sample(self, obj, limit=6):
        if len(self.cov["samples"]) < limit:
            self.cov["samples"].append(obj)

    def violation(self, sig, desc, replay):
        """A spec violation observed on the implementation (or on the model after a proof
        broke).  sig identifies the specific failing input/call site for known findings."""
        if sig in self.known:
            if sig not in self.known_hit:
                self.known_hit[sig] = (desc, replay)
            return
        self.violations.append((sig, desc, replay))

    def disagreement(self, desc, replay):
        self.corr_broken.append((desc, replay))

    # -- proofs --------------------------------------------------------------------------
    def prove(self, vfiles, theorems_re=r"^\s*(Theorem|Corollary)\s+(\w+)"):
        """Regenerate facts, rebuild the Coq project, re-check the property files of this
        check and collect Print Assumptions.  Fills obligations/discharged."""
        bad = grep_gate()
        if bad:
            self.proof_broken.append("forbidden construct in development: " + "; ".join(bad[:5]))
        gen = gen_facts()
        self.cov["gen_items"] = gen
        ok, log = coq_make()
        self.cov["checker_cmd"] = "coq_makefile -f _CoqProject -o Makefile && make -k -j%d (coqc 8.16.1, full .vo build) ; then make %s after deleting its .vo" % (
            NPROC, " ".join(v[:-2] + ".vo" for v in vfiles))
        assumptions = {}
        for vf in vfiles:
            src = open(os.path.join(COQ, vf)).read()
            names = [m.group(2) for m in re.finditer(theorems_re, strip_coq_comments(src), re.M)]
            self.cov["obligations"] += len(names)
            ok1, out = coq_recheck(vf)
            if ok1:
                self.cov["discharged"] += len(names)
                for blk in re.split(r"\n(?=Closed under the global context|Axioms:)", out):
                    pass
                assumptions[vf] = _assumption_summary(out)
            else:
                self.proof_broken.append("%s does not check:\n%s" % (vf, _first_error(out)))
        self.cov["print_assumptions"] = assumptions
        if not ok and not self.proof_broken:
            # some other file of the development is broken; it matters only if one of ours depends
            self.notes.append("make -k reported errors outside this property's files")
        return not self.proof_broken

    # -- end -----------------------------------------------------------------------------
    def finish(self, level="proof"):
        evdir = os.environ.get("VERIF_EVIDENCE_DIR") or os.path.join(ROOT, "evidence")   # development runs on seeded trees write elsewhere
        os.makedirs(evdir, exist_ok=True)
        rdir = os.path.join(ROOT, "replays", self.pid)
        lines = []
        n = 0
        if os.path.isdir(rdir):
            for f in os.listdir(rdir):
                if f.startswith(self.tier + "-"):
                    os.remove(os.path.join(rdir, f))

        def save(obj):
            nonlocal n
            os.makedirs(rdir, exist_ok=True)
            path = os.path.join(rdir, "%s-%d.json" % (self.tier, n))
            n += 1
            json.dump(obj, open(path, "w"), indent=1, default=str)
            return os.path.relpath(path, ROOT)

        for sig, (desc, replay) in self.known_hit.items():
            print("KNOWN-FINDING: property=%s %s [%s]" % (self.pid, self.known[sig], sig))
        seen = set()
        for sig, desc, replay in self.violations:
            if sig in seen:
                continue
            seen.add(sig)
            path = save({"property": self.pid, "kind": "spec-violation", "signature": sig,
                         "description": desc, "replay": replay, "seed": self.seed})
            lines.append("VIOLATION property=%s replay=%s" % (self.pid, path))
            print("  violation [%s]: %s" % (sig, desc))
            if len(seen) >= 8:
                break
        if not self.violations:
            # a broken proof or correspondence with no failing input found is still a violation
            if self.proof_broken:
                path = save({"property": self.pid, "kind": "proof-broken",
                             "no_longer_checks": self.proof_broken, "seed": self.seed})
                print("  proof obligation no longer checks: " + self.proof_broken[0][:600])
                lines.append("VIOLATION property=%s replay=%s no-failing-input-found" % (self.pid, path))
            elif self.corr_broken:
                desc, replay = self.corr_broken[0]
                path = save({"property": self.pid, "kind": "correspondence-broken",
                             "description": desc, "replay": replay,
                             "n_disagreements": len(self.corr_broken), "seed": self.seed})
                print("  model and implementation disagree: " + desc[:600])
                lines.append("VIOLATION property=%s replay=%s no-failing-input-found" % (self.pid, path))
        if not self.cov.get("rule"):
            self.cov["rule"] = RULES.get(self.pid, "cases are generated from one PRNG seeded with VERIF_SEED plus fixed boundary cases; a case is non-trivial unless the check marks it so; distinct = distinct canonical case text (md5)")
        if not self.assumptions:
            self.assumptions = [t for t in self.cov.get("trusted_base", []) if t.lower().startswith(("modelled", "trusted", "hand-written", "correspondence"))] or list(self.cov.get("trusted_base", []))
            pa = self.cov.get("print_assumptions") or {}
            closed = all(all(x == "closed" for x in v) for v in pa.values()) if pa else None
            self.assumptions.append("Print Assumptions of every theorem of this property: " + ("Closed under the global context (no axioms)" if closed else "see coverage.print_assumptions" if pa else "not available (proof did not check)"))
        self.cov["distinct_nontrivial"] = len(self._distinct)
        self.cov["distribution"] = self.dist
        self.cov["known_findings_reported"] = sorted(self.known_hit)
        self.cov["proof_broken"] = self.proof_broken
        self.cov["correspondence_disagreements"] = len(self.corr_broken)
        self.cov["notes"] = self.notes
        ev = {"property_id": self.pid, "tier": self.tier, "seed": self.seed, "level": level,
              "coverage": self.cov, "assumptions": self.assumptions,
              "wall_s": round(time.time() - self.t0, 2),
              "violations": len(lines)}
        json.dump(ev, open(os.path.join(evdir, self.pid + ".json"), "w"), indent=1,
                  default=str)
        for l in lines:
            print(l)
        print("%s %s: %d cases, %d distinct non-trivial, %d/%d obligations, %.1fs -> %s" % (
            self.pid, self.tier, self.cov["evaluations"], self.cov["distinct_nontrivial"],
            self.cov["discharged"], self.cov["obligations"], time.time() - self.t0,
            "VIOLATION" if lines else "ok"))
        return 1 if lines else 0


RULES = {
    "C01": "suite trees are generated (depth 0-4, 0-12 tests, behaviours pass/fail/skip/die/exit at chosen positions, biased to one bad test in a late or deep position) x reporters x modes, plus fixed corner scenarios; non-trivial = the tree contains at least one executed test; distinct = distinct (model case text) md5",
    "C02": "every instrumented kill point x way of dying x position on generated trees; non-trivial = the dying test exists and the point is reached; distinct by scenario text",
    "C03": "as C01 with skip_test()/dying at every position; the native output of every reporter is parsed and compared per test; distinct by scenario text",
    "C04": "generated test sets run under permutations and subsets; non-trivial = at least two tests; distinct by (set, order) text",
    "C05": "operand pairs from a boundary set (0, +-1, +-2^31(+-1), +-2^32(+-1), +-2^63) x random, all string pairs over {a,b} up to length 3 (4 thorough), planted prefixes/suffixes/needles, memory blocks with one differing byte at every offset; every probe is compared with the translated comparator and an independent oracle; non-trivial = every probe; distinct by probe text",
    "C06": "generated histories of expect/always/never/call/mode/tally over 4 functions (lengths 0-40, 95-105 and 195-205 pending), plus every history of <= 4 ops over two functions; non-trivial = history contains at least one call; distinct by history text",
    "C07": "as C06, stressing too few / too many calls, times(0), calls after never, declarations after always/never, three modes; distinct by history text",
    "C08": "generated trees with suite/context fixtures x 3 modes; the event log (pid, phase, name) is compared with the model's event list; distinct by scenario text",
    "C09": "generated test libraries (1-5 contexts incl. the default one, 1,2,5,23,99,100,101 (thorough also 199-201) tests, names sharing prefixes, some with a failing test) whose tests append their own name to a log; per library: no pattern, exact, *:*, ctx:*, *:name, c*:n*, prefix*, *suffix, patterns matching nothing, patterns constructed to match exactly one test, patterns without a colon; several libraries on one command line each with or without its own pattern and a missing library at random positions; reporter options none/--xml/--libxml2/-s/--quiet; discovery of every library with --no-run --verbose; 1500 (20000) random (pattern, string) pairs over {a,b,_,*} against fnmatch(3); non-trivial = runs with a pattern, glob pairs containing '*'; distinct by command line",
    "C10": "expression texts and string operands over the alphabet {%,s,d,n,digits,backslash,quote,space,a}, integers from the C05 boundary set, every constraint kind, all texts of length <= 3 (4) over {%,s,a}; only failing checks are kept (a message is shown); distinct by probe text",
    "C13": "generated scenarios run forked, CGREEN_NO_FORK and run_single_test; per-test credits and messages compared across modes and with the model; distinct by scenario text",
    "C17": "C01 scenarios under all reporter configurations; counts recovered from each native format and compared pairwise; distinct by scenario text",
    "C18": "tests with k checks for k around the channel capacity (cap-2..cap+1, 2cap, 3cap+7), overflowing test first/middle/last, both modes; distinct by scenario text",
    "C11": "scenarios run under the xml and the libxml2 reporter (forked, some also CGREEN_NO_FORK): failure messages over the alphabet {<,>,&,quotes,%,%s,a,blank,Latin-1 and UTF-8 e-acute,]]>,&amp;,backslash} alone, with line breaks/tabs, and with control bytes, at lengths 1,7,1000,1001 (thorough 0..5000); 16 single special texts; string-operand assertions; 1,21,40,60 (to 200) failures in one test; one scenario with every outcome (pass, fail, skip_test, xEnsure, signals with and without delivered failures, empty) over nested suites; suite and test names with metacharacters / control / Latin-1 bytes; 70 tests under a 64-descriptor limit (1100 under 1024 thorough); 20 (400) random mixes; every file parsed with expat, per-test elements compared with the scripts, and for the xml reporter the whole file compared byte for byte with the Coq model's rendering; non-trivial = every run; distinct by (scenario, reporter, mode)",
    "C12": "integers from the boundary set (0, +-1, +-2^31(+-1), +-2^32(+-1), +-2^63, 2^k+-1) and random; double bit patterns (signed zeros, subnormals, infinities, quiet/signalling NaNs with random payloads, random bits); structures of every size in a range with random content; output parameters at every (offset, size) of small exact-size heap buffers plus larger ones; captures for every size in {1,2,4,8} x position x arity 1..8 with values exposing truncation, the wrong half of the word and sign; non-trivial = every probe; distinct by probe text",
    "C14": "three-test scenarios in which the test at position 0/1/2 overruns a 1-second limit after delivering 0, 1 (a failure) or 2 results, armed by CGREEN_PER_TEST_TIMEOUT or by die_in(), sleeping or blocked in pause(), in the forked, CGREEN_NO_FORK and run_single_test modes under several reporters; scenarios in which nobody overruns; 26 values of the variable (empty, zero, negative, non-numeric, trailing characters, signs, blanks, leading zeros, out of int range, valid); non-trivial = every run; distinct by (scenario, reporter, mode, environment)",
    "C15": "pairs of finite doubles: every 23rd (thorough: every) decade 10^k from 1e-320 to 1e308 with the power of ten itself, its two neighbours on each side and 0.9999999*10^k, each paired with itself, its successor, values at relative distance c*10^-n for c in {0.09,0.11,0.9,1.1,9,11} and n in {1,2,8,15} (thorough 1..15), the negated pair, a tiny opposite-sign value and its negation; 21x21 special values (signed zeros, subnormals, DBL_MIN, DBL_MAX, values around the absolute tolerance); random pairs (neighbours, relative perturbations, unrelated); every pair in both orders at 8 (thorough 15) figure settings through 8 public routes, and every third pair through is_less_than_double / is_greater_than_double; non-trivial = every probe; distinct by (kind, figures, bit patterns)",
    "C16": "a generated translation unit of mock functions of arity 0..10 (6 per arity quick, 24 thorough) in 8 spellings (compact, spaced, wide, line-broken, tabs, box_double( x ), box_double (x), mixed), identifiers drawn from families that are prefixes/suffixes of one another, doubles at random positions; per function and position: a when-clause with matching / mismatching named argument / all other arguments changed, a capture, an output parameter; absent names (prefixes, suffixes, case variants) with and without will_return_double; plus the tokenizer alone on generated spellings and a malformed stream; non-trivial = every probe; distinct by probe text",
    "C19": "scenarios containing a failing test (first / middle with results before and after / last behind a nested suite / alone / one test with 6000 results) under the text and xml reporters, forked and (two of them) CGREEN_NO_FORK; a reference run counts how often fork, pipe, fcntl, tmpfile, write and read on the result pipe and malloc inside send/receive_cgreen_message are reached; then one run per (site, k) for every k (first three, middle, last two when more than 12; thorough: every k up to 200), each on the plain build and - except the malloc sites - again under ASan+UBSan; observed: termination, exit status, sanitizer reports, for the xml reporter whether the report shows the failing test as passed, and for write faults what the runner credits the affected test (compared with the model); non-trivial = every injected run; distinct by (scenario, reporter, mode, site, k, build)",
    "C20": "container histories: sizes 0,1,2,3,step-1,step,step+1,2step-1..2step+1,3step,5step with removals at head/middle/tail, drain-and-reuse, ping-pong at the boundary, random histories, every history of <= 3 (5) ops over a 6-letter alphabet; suite registration orders around powers of two and 100; breadcrumb depths to 400; whole runs under ASan+UBSan with counts, nesting depth 1-101 and name lengths 1-5000 under every reporter; non-trivial = every case; distinct by case text",
}


def _first_error(out):
    m = re.search(r"(File \"[^\"]+\", line \d+[^\n]*\n(?:.*\n){0,12})", out)
    return (m.group(1) if m else out[-1500:]).strip()


def _assumption_summary(out):
    """The text Coq printed for every `Print Assumptions` of the file, condensed."""
    res = []
    cur = None
    for l in out.split("\n"):
        if l.startswith("Closed under the global context"):
            res.append("closed"); cur = None
        elif l.startswith("Axioms:"):
            cur = []; res.append(cur)
        elif cur is not None:
            if l.startswith(" ") or l.strip() == "":
                m = re.match(r"\s*([\w.']+)\s*:", l)
                if m:
                    cur.append(m.group(1))
            elif re.match(r"[\w.']+\s*:", l):
                cur.append(l.split(":")[0].strip())
            else:
                cur = None
    return res


def private_dir(tag):
    d = os.path.join(WORK, "run-%s-%d-%d" % (tag, os.getpid(), random.randrange(1 << 30)))
    os.makedirs(d)
    return d
