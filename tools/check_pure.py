"""Checks on pure functions: C05 (constraints), C10 (messages), C12 (values), C16 (parameter
names), C15 (doubles)."""
import itertools, os, subprocess
import vlib

TRUSTED_P = [
    "Coq 8.16.1 kernel (full .vo build; no native_compute)",
    "tools/srcfacts.py + srcfacts_more.py (clang JSON AST; regex for legacy.h macros): comparator bodies, unary constructors, legacy predicates and polarities re-derived from source on every run",
    "extraction: ExtrOcamlBasic only; ocaml glue (util.ml, h_*.ml, driver.ml)",
    "hand-written Gallina models of libc: strlen, strcmp, strstr, memcmp (CStr.v) with their own specification lemmas; validated against the real functions by the correspondence run",
]

BOUND = [0, 1, -1, 2, -2, 2**31 - 1, 2**31, 2**31 + 1, -2**31, -2**31 - 1, -2**31 + 1, 2**32 - 1, 2**32, 2**32 + 1,
         -2**32, -2**32 + 1, -2**32 - 1, 2**63 - 1, -2**63, 2**63 - 2, -2**63 + 1, 2**40, 3 * 2**32, 255, 256, 65536]


def hexs(b):
    if b is None:
        return "-"
    return b.hex() if b else "e"


def sx(b):
    if b is None:
        return "-"
    return "(" + " ".join(str(x) for x in b) + ")"


def run_lines(drv, lines, timeout=600):
    p = subprocess.run([drv], input="\n".join(lines) + "\n", stdout=subprocess.PIPE, stderr=subprocess.DEVNULL,
                       text=True, timeout=timeout)
    out = p.stdout.split("\n")
    if out and out[-1] == "":
        out.pop()
    return out, p.returncode


# ---------------------------------------------------------------------------------------
# C05
# ---------------------------------------------------------------------------------------
def oracle_C05(case):
    """the documented relation, computed independently"""
    k = case[0]
    if k == "I":
        w, a, e = case[1:]
        return {"eq": a == e, "hex": a == e, "ne": a != e, "lt": a < e, "gt": a > e, "null": a == 0,
                "nonnull": a != 0, "true": a != 0, "false": a == 0}[w]
    if k == "W":
        w, a, e = case[1:]
        return {"eq": a == e, "ne": a != e, "lt": a < e, "gt": a > e}[w]
    if k == "L":
        w, a, e = case[1:]
        return {"eq": a == e, "ne": a != e, "eqm": a == e, "nem": a != e, "true": a != 0, "false": a == 0,
                "truem": a != 0, "falsem": a == 0}[w]
    if k == "S":
        w, a, e = case[1:]
        if a is None or e is None:
            if w in ("eq", "seq", "seqm"):
                return a is None and e is None
            if w in ("ne", "sne", "snem"):
                return not (a is None and e is None)
            if w == "contains":
                return False
            if w == "ncontains":
                return True
            return None
        pos = {"eq": a == e, "seq": a == e, "seqm": a == e, "contains": e in a, "begins": a.startswith(e), "ends": a.endswith(e)}
        if w in pos:
            return pos[w]
        neg = {"ne": "eq", "sne": "eq", "snem": "eq", "ncontains": "contains", "nbegins": "begins", "nends": "ends"}
        return not pos[neg[w]]
    if k == "M":
        w, a, e, n = case[1:]
        if n <= 0 or a is None or e is None:
            return "v"
        r = a[:n] == e[:n]
        return r if w == "eq" else not r
    return None


def fmt_C05(case):
    k = case[0]
    if k == "W":
        return "W %s %d %d" % case[1:], "(I %s %d %d)" % case[1:]
    if k in "IL":
        return "%s %s %d %d" % case, "(%s %s %d %d)" % case
    if k == "S":
        return "S %s %s %s" % (case[1], hexs(case[2]), hexs(case[3])), "(S %s %s %s)" % (case[1], sx(case[2]), sx(case[3]))
    if k == "M":
        return "M %s %s %s %d" % (case[1], hexs(case[2]), hexs(case[3]), case[4]), "(M %s %s %s %d)" % (case[1], sx(case[2]), sx(case[3]), case[4])


def gen_C05(chk):
    rng = chk.rng
    cases = []
    ints = BOUND + [rng.randrange(-2**63, 2**63) for _ in range(10 if chk.tier == "quick" else 200)]
    pairs = [(a, e) for a in BOUND for e in BOUND]
    pairs += [(rng.choice(ints), rng.choice(ints)) for _ in range(300 if chk.tier == "quick" else 20000)]
    pairs += [(a, a) for a in ints]
    for a, e in pairs:
        for w in ("eq", "hex", "ne", "lt", "gt"):
            cases.append(("I", w, a, e))
        for w in ("eq", "ne", "eqm", "nem"):
            cases.append(("L", w, a, e))
        for w in ("eq", "ne", "lt", "gt"):
            cases.append(("W", w, a, e))
    for a in ints:
        for w in ("null", "nonnull", "true", "false"):
            cases.append(("I", w, a, 0))
        # the legacy truth macros over the whole intptr_t range: an operand that is non-zero only above bit 31
        # is true all the same (the reporter's `int result` parameter may not see the operand itself)
        for w in ("true", "false", "truem", "falsem"):
            cases.append(("L", w, a, 0))
    # all strings over {a,b} up to length 3 (4 in the thorough tier), every pair
    maxlen = 3 if chk.tier == "quick" else 4
    small = [bytes(t) for n in range(maxlen + 1) for t in itertools.product(b"ab", repeat=n)]
    swords = ("eq", "ne", "contains", "ncontains", "begins", "nbegins", "ends", "nends", "seq", "sne", "seqm", "snem")
    for a in small:
        for e in small:
            for w in swords:
                cases.append(("S", w, a, e))
    # longer random strings with planted prefixes / suffixes / repeated needles, bytes > 127
    alpha = b"ab%\xe9\x01 z"
    for _ in range(150 if chk.tier == "quick" else 20000):
        e = bytes(rng.choice(alpha) for _ in range(rng.choice([0, 1, 2, 3, 5, 9])))
        filler = lambda: bytes(rng.choice(alpha) for _ in range(rng.choice([0, 1, 2, 4, 17, 40])))
        a = rng.choice([filler() + e + filler(), e + filler(), filler() + e, filler(), e, e[:-1] + filler() if e else filler(),
                        e * 3, filler() + e[1:] + e + e[:-1] if e else filler()])
        for w in swords:
            cases.append(("S", w, a, e))
    # NULL operands where the code defines the outcome
    for w in ("eq", "ne", "contains", "ncontains", "seq", "sne", "seqm", "snem"):
        for a, e in ((None, None), (None, b"ab"), (b"ab", None), (None, b"")):
            if w in ("contains", "ncontains") or True:
                cases.append(("S", w, a, e))
    # memory blocks: a difference at every offset, sizes around it
    for size in ([1, 2, 3, 8, 33] if chk.tier == "quick" else range(1, 65)):
        base = bytes(rng.randrange(256) for _ in range(size))
        for off in range(size):
            other = bytearray(base)
            other[off] ^= rng.choice([1, 0x80, 0xff])
            other = bytes(other)
            for n in {1, off, off + 1, size}:
                if n >= 1:
                    for w in ("eq", "ne"):
                        cases.append(("M", w, base, other, n))
        for w in ("eq", "ne"):
            cases.append(("M", w, base, base, size))
            cases.append(("M", w, base, base, 0))
            cases.append(("M", w, base, base, -1))
            cases.append(("M", w, None, base, size))
            cases.append(("M", w, base, None, size))
    return cases


def check_C05(chk):
    build = vlib.build_repo("hooks")
    drv = vlib.build_driver("probe_constraints", build)
    drvpp = vlib.build_driver("probe_constraints_cpp", build, cxx=True)
    chk.prove(["Properties_C05.v"])
    chk.cov["trusted_base"] = TRUSTED_P + ["harness/probe_constraints.c, probe_constraints_cpp.cpp, tools/check_pure.py (generator, oracle)",
                                           "axioms: see coverage.print_assumptions"]
    cases = gen_C05(chk)
    impl_lines, model_lines = zip(*(fmt_C05(c) for c in cases))
    out, rc = run_lines(drv, impl_lines)
    if rc != 0 or len(out) != len(cases):
        bad = cases[len(out)] if len(out) < len(cases) else None
        chk.violation("probe-crash", "a constraint crashed the probe (exit %s)" % rc, {"case": str(bad), "input_line": impl_lines[len(out)] if bad else None,
                                                                                          "how": "echo '<line>' | _work/bin-hooks/probe_constraints"})
        cases = cases[:len(out)]
    model = vlib.run_model("constraints", list(model_lines[:len(cases)]))
    for c, il, o, m in zip(cases, impl_lines, out, model):
        chk.case(il)
        chk.count("kind:" + c[0] + ":" + c[1])
        chk.cov["disagreements_checked"] += 1
        rp = {"case": il, "implementation": o, "how": "echo '%s' | _work/bin-hooks/probe_constraints" % il}
        if o != m and not m.startswith("ERROR"):
            chk.disagreement("%s: implementation %s, translated comparator %s" % (il, o, m), rp)
        if m.startswith("ERROR"):
            chk.disagreement("model error on %s: %s" % (il, m), rp)
        exp = oracle_C05(c)
        if exp is None:
            continue
        exps = "v" if exp == "v" else ("1" if exp else "0")
        if o != exps:
            chk.violation("relation-%s-%s" % (c[0], c[1]), "%s: check %s but the documented relation %s" % (
                il[:200], {"1": "passes", "0": "fails", "v": "is rejected"}.get(o, o), {"1": "holds", "0": "does not hold", "v": "is undefined (invalid operands)"}[exps]), rp)
        chk.sample({"case": il[:120], "result": o}, limit=6)
    # C++ std::string overloads: four spellings of every string case the overloads exist for
    cpp_cases = [c for c in cases if c[0] == "S" and c[1] in ("eq", "ne", "contains", "ncontains", "begins") and c[2] is not None and c[3] is not None]
    if chk.tier == "quick":
        cpp_cases = cpp_cases[::3]
    lines = ["S %s %s %s %d" % (c[1], hexs(c[2]), hexs(c[3]), v) for c in cpp_cases for v in range(4)]
    out, rc = run_lines(drvpp, lines)
    if rc != 0 or len(out) != len(lines):
        chk.violation("cpp-probe-crash", "the C++ probe crashed (exit %s)" % rc, {"input_line": lines[len(out)] if len(out) < len(lines) else None})
    for (c, v), l, o in zip(((c, v) for c in cpp_cases for v in range(4)), lines, out):
        chk.case("cpp " + l)
        chk.count("cpp-variant:%d" % v)
        exp = "1" if oracle_C05(c) else "0"
        if o != exp:
            chk.violation("cpp-relation-%s" % c[1], "C++ overload (variant %d) %s: %s, documented relation says %s" % (v, l[:200], o, exp),
                          {"case": l, "how": "echo '<line>' | _work/bin-hooks/probe_constraints_cpp"})
    return chk.finish()


CHECKS = {"C05": check_C05}


# ---------------------------------------------------------------------------------------
# C10: failure messages show expression and values literally
# ---------------------------------------------------------------------------------------
ALPHA10 = b"%sdn0159\\\" a"


def rtext(rng, maxlen=8):
    n = rng.choice([0, 1, 1, 2, 3, 5, maxlen])
    return bytes(rng.choice(ALPHA10) for _ in range(n))


def hx(b):
    return b.hex() if b else "e"


def sxb(b):
    return "(" + " ".join(str(x) for x in b) + ")" if b else "e"


def dec_py(v):
    return str(v).encode()


def literal_rendering(case):
    """pieces that must appear verbatim in the shown text: (expression text, expected text, numerals / string contents)"""
    k = case[0]
    must = []
    if k == "A":
        w, at, et, a, e = case[1:]
        must.append(("actual expression", at))
        if w not in ("null", "nonnull", "true", "false"):
            must.append(("expected expression", et))
            if at not in (dec_py(a), b"true", b"false"):
                must.append(("actual value", b"[" + (dec_py(a) if w != "hex" else b"0x%x" % (a % 2**64)) + b"]"))
                if w != "ne":
                    must.append(("expected value", b"[" + (dec_py(e) if w != "hex" else b"0x%x" % (e % 2**64)) + b"]"))
    elif k == "S":
        w, at, et, av, ev = case[1:]
        must += [("actual expression", at), ("expected expression", et)]
        if at not in (b"true", b"false"):
            must.append(("actual string", b'["' + av + b'"]'))
            if w != "ne":
                must.append(("expected string", b'["' + ev + b'"]'))
    elif k == "L":
        w, xt, a, e = case[1:]
        must += [("expression", b"[" + xt + b"]"), ("expected value", b"[" + dec_py(e) + b"]")]
        if w == "eq":
            must.append(("actual value", b"[" + dec_py(a) + b"]"))
    elif k == "T":
        w, xt, av, ev = case[1:]
        must += [("expression", b"[" + xt + b"]"), ("expected string", b"[" + ev + b"]")]
        if w == "eq":
            must.append(("actual string", b"[" + av + b"]"))
    elif k == "P":
        w, et, a, e = case[1:]
        must += [("parameter", b"[p0] parameter in [mocked_int]"), ("expected expression", et),
                 ("actual value", b"[" + (dec_py(a) if w != "hex" else b"0x%x" % (a % 2**64)) + b"]")]
    elif k == "Q":
        w, et, av, ev = case[1:]
        must += [("parameter", b"[p0] parameter in [mocked_int]"), ("expected expression", et), ("actual string", b'["' + av + b'"]')]
    return must


def fails(case):
    """does the check fail (so that a message is shown)?"""
    k = case[0]
    if k in "AP":
        w, a, e = case[1], case[-2], case[-1]
        return not {"eq": a == e, "hex": a == e, "ne": a != e, "lt": a < e, "gt": a > e, "null": a == 0, "nonnull": a != 0,
                    "true": a != 0, "false": a == 0}[w]
    if k in "SQ":
        w, av, ev = case[1], case[-2], case[-1]
        return not {"eq": av == ev, "ne": av != ev, "contains": ev in av, "ncontains": ev not in av, "begins": av.startswith(ev),
                    "nbegins": not av.startswith(ev), "ends": av.endswith(ev), "nends": not av.endswith(ev)}[w]
    if k == "L":
        return (case[3] != case[4]) if case[1] == "eq" else (case[3] == case[4])
    if k == "T":
        return (case[3] != case[4]) if case[1] == "eq" else (case[3] == case[4])


def fmt_C10(case):
    k = case[0]
    if k == "A":
        w, at, et, a, e = case[1:]
        return "A %s %s %s %d %d" % (w, hx(at), hx(et), a, e), "(A %s %s %s %d %d)" % (w, sxb(at), sxb(et), a, e)
    if k == "S":
        w, at, et, av, ev = case[1:]
        return "S %s %s %s %s %s" % (w, hx(at), hx(et), hx(av), hx(ev)), "(S %s %s %s %s %s)" % (w, sxb(at), sxb(et), sxb(av), sxb(ev))
    if k == "L":
        w, xt, a, e = case[1:]
        return "L %s %s %d %d" % (w, hx(xt), a, e), "(L %s %s %d %d)" % (w, sxb(xt), a, e)
    if k == "T":
        w, xt, av, ev = case[1:]
        return "T %s %s %s %s" % (w, hx(xt), hx(av), hx(ev)), "(T %s %s %s %s)" % (w, sxb(xt), sxb(av), sxb(ev))
    if k == "P":
        w, et, a, e = case[1:]
        at = b"[p0] parameter in [mocked_int]"
        return "P %s %s %d %d" % (w, hx(et), a, e), "(A %s %s %s %d %d)" % (w, sxb(at), sxb(et), a, e)
    if k == "Q":
        w, et, av, ev = case[1:]
        at = b"[p0] parameter in [mocked_int]"
        return "Q %s %s %s %s" % (w, hx(et), hx(av), hx(ev)), "(S %s %s %s %s %s)" % (w, sxb(at), sxb(et), sxb(av), sxb(ev))


def gen_C10(chk):
    rng = chk.rng
    cases = []
    n = 700 if chk.tier == "quick" else 40000
    IW = ["eq", "hex", "ne", "lt", "gt", "null", "nonnull", "true", "false"]
    SW = ["eq", "ne", "contains", "ncontains", "begins", "nbegins", "ends", "nends"]
    vals = BOUND
    # corpus: the inputs of the repaired defects first
    cases += [("A", "eq", b"a", b"7 %s", 1, 2), ("A", "eq", b"a % b", b"c % d", 1, 2), ("S", "eq", b'"100%s"', b"x", b"100%s", b"y"),
              ("L", "eq", b"v", 4294967297, 5), ("A", "hex", b"a", b"b", 4294967297, 2), ("A", "eq", b"%n", b"%n%n", 3, 4)]
    for _ in range(n):
        a, e = rng.choice(vals), rng.choice(vals)
        w = rng.choice(IW)
        cases.append(("A", w, rtext(rng), rtext(rng), a, e))
        cases.append(("A", w, dec_py(a) if rng.random() < 0.3 else rng.choice([b"true", b"false", rtext(rng)]), rtext(rng), a, e))
        w = rng.choice(SW)
        av, ev = rtext(rng, 12), rtext(rng, 6)
        if rng.random() < 0.3:
            av = ev + av
        cases.append(("S", w, rtext(rng), rtext(rng), av, ev))
        cases.append(("L", rng.choice(["eq", "ne"]), rtext(rng), a, rng.choice([a, e])))
        cases.append(("T", rng.choice(["eq", "ne"]), rtext(rng), av, rng.choice([av, ev])))
        cases.append(("P", rng.choice(["eq", "hex", "ne", "lt", "gt"]), rtext(rng), a, e))
        cases.append(("Q", rng.choice(SW), rtext(rng), av, ev))
    # all texts of length <= 3 (4) over {%, s, a} in the expression positions
    import itertools as it
    L = 3 if chk.tier == "quick" else 4
    for n_ in range(L + 1):
        for t in it.product(b"%sa", repeat=n_):
            t = bytes(t)
            cases.append(("A", "eq", t, b"x", 1, 2))
            cases.append(("A", "eq", b"x", t, 1, 2))
            cases.append(("S", "eq", b"x", t, t, b"q"))
    # long texts (the +512 slack)
    for ln in (400, 600, 5000):
        big = bytes(rng.choice(b"ab%") for _ in range(ln))
        cases.append(("A", "eq", big, big, 1, 2))
        cases.append(("S", "contains", b"x", b"y", big, b"zz"))
    return [c for c in cases if fails(c)]


def check_C10(chk):
    build = vlib.build_repo("hooks")
    drv = vlib.build_driver("probe_format", build)
    chk.prove(["Properties_C10.v", "Properties_Code_Percent.v"])
    chk.cov["trusted_base"] = TRUSTED_P + ["Printf.v: hand-written model of the printf conversions %%, %s, %d, %ld, %x, %lx, %02x (validated against libc by the correspondence run)",
                                           "Properties_Code_Percent.v: double_all_percent_signs_in() with its three helpers (src/message_formatting.c), translated whole on every run, is proved to return Printf.double_percent of every text in a block of exactly the allocated size (CLite interpreter with byte-exact blocks; strchr, strlen, memcpy, strcpy, malloc are CLite.builtin models)",
                                           "harness/probe_format.c (expands format+arguments with vsnprintf as the text reporter's vprintf does), tools/check_pure.py",
                                           "modelled, not verified: snprintf truncation at message_size (the +512 slack), the x86-64 varargs ABI",
                                           "axioms: see coverage.print_assumptions"]
    cases = gen_C10(chk)
    # the percent-doubling routine translated whole from src/message_formatting.c, run by the extracted CLite
    # interpreter against Printf.double_percent; texts on which they differ go to the real assertions as well
    import codetie
    for t in codetie.string_function(chk, "percent", codetie.percent_inputs(chk), "double_all_percent_signs_in()")[:40]:
        if t and 0 not in t:
            cases += [c for c in (("A", "eq", t, b"x", 1, 2), ("A", "eq", b"x", t, 1, 2), ("S", "eq", b"x", t, t, b"q")) if fails(c)]
    impl_lines, model_lines = zip(*(fmt_C10(c) for c in cases))
    out, rc = run_lines(drv, impl_lines)
    if rc != 0 or len(out) != len(cases):
        raise vlib.Infra("probe_format ended early (exit %s, %d of %d lines)" % (rc, len(out), len(cases)))
    model = vlib.run_model("format", list(model_lines))
    for c, il, o, m in zip(cases, impl_lines, out, model):
        chk.case(il)
        chk.count("kind:" + c[0] + ":" + c[1])
        chk.cov["disagreements_checked"] += 1
        rp = {"case": il, "how": "echo '%s' | _work/bin-hooks/probe_format   (texts are hex; output F<hex of the shown text>)" % il[:400]}
        toks = o.split()
        if "CRASH" in toks:
            chk.violation("crash-%s-%s" % (c[0], c[1]), "producing the message crashed the test (signal %s): %s" % (toks[-1], il[:200]), rp)
            continue
        texts = [bytes.fromhex(t[1:]) for t in toks if t.startswith("F")]
        if len(texts) != 1:
            chk.violation("count-%s-%s" % (c[0], c[1]), "%d failure texts for one failed check: %s" % (len(texts), il[:200]), rp)
            continue
        shown = texts[0]
        rp["shown"] = shown.decode("latin-1")
        big = len(il) > 800
        if not big and m != "F" + shown.hex():
            mt = bytes.fromhex(m[1:]).decode("latin-1") if m.startswith("F") else m
            chk.disagreement("%s: shown %r, model %r" % (il[:200], shown.decode("latin-1")[:300], mt[:300]), rp)
        for what, piece in literal_rendering(c):
            if piece not in shown:
                chk.violation("literal-%s-%s" % (c[0], c[1]), "the shown text does not contain the %s %r literally: %r" % (what, piece[:80], shown.decode("latin-1")[:300]), rp)
                break
        chk.sample({"case": il[:100], "shown": shown.decode("latin-1")[:160]}, limit=5)
    return chk.finish()


CHECKS["C10"] = check_C10


# ---------------------------------------------------------------------------------------
# C12: values pass through mocks unchanged
# ---------------------------------------------------------------------------------------
def gen_C12(chk):
    import struct
    rng = chk.rng
    big = chk.tier == "thorough"
    cases = []
    ints = BOUND + [rng.randrange(-2**63, 2**63) for _ in range(2000 if big else 60)] + \
        [s * (1 << k) + d for k in range(1, 63, 3) for s in (1, -1) for d in (-1, 0, 1)]
    for v in ints:
        if -2**63 <= v < 2**63:
            cases.append(("R", v))
    # doubles as bit patterns
    dbl = [0, 1 << 63, 1, (1 << 63) | 1, 0x000fffffffffffff, 0x0010000000000000, 0x7ff0000000000000, 0xfff0000000000000,
           0x7ff0000000000001, 0x7ff8000000000000, 0xfff8000000000001, 0x7ff4000000000abc, 0x7fffffffffffffff, 0xffffffffffffffff,
           0x3ff0000000000000, 0x4010eb851eb851ec, 0x7fefffffffffffff]
    dbl += [rng.getrandbits(64) for _ in range(5000 if big else 200)]
    dbl += [(0x7ff << 52) | rng.getrandbits(52) | (rng.getrandbits(1) << 63) for _ in range(1000 if big else 60)]   # NaN payloads
    dbl += [rng.getrandbits(52) | (rng.getrandbits(1) << 63) for _ in range(300 if big else 30)]                  # subnormals
    for b in dbl:
        cases.append(("D", b))
    # many boxed doubles alive at the same time (a box must stay what it is until it is unboxed)
    for n_ in ([1, 2, 8, 9, 17, 65, 300] if not big else [1, 2, 3, 7, 8, 9, 15, 16, 17, 31, 32, 33, 64, 65, 127, 128, 129, 300, 1025]):
        cases.append(("K", n_, rng.choice([0x3ff0000000000000, 0x7ff8000000000001, 0x0000000000000001, 0xfff0000000000000])))
    # structures by value: every size in a range, random content
    for size in (list(range(0, 258)) if big else [0, 1, 2, 3, 4, 7, 8, 9, 15, 16, 17, 24, 31, 32, 33, 63, 64, 65, 127, 128, 129, 255, 256, 257]):
        cases.append(("B", size, bytes(rng.randrange(256) for _ in range(size))))
    for _ in range(300 if big else 20):
        size = rng.choice([1, 5, 12, 100, 1000, 4096, 5000])
        cases.append(("B", size, bytes(rng.randrange(256) for _ in range(size))))
    # one expectation serving several calls (times(n), always_expect)
    for mode, calls in (("e", 2), ("e", 3), ("a", 2), ("a", 5)):
        for size in ([1, 8, 24, 257] if not big else [0, 1, 3, 8, 24, 100, 257, 1000]):
            cases.append(("B", size, bytes(rng.randrange(256) for _ in range(size)), mode, calls))
        for v in (rng.choice(ints), 2**32 + 1, -1):
            cases.append(("R", v, mode, calls))
    # output parameters: every (offset, size) in a small guarded buffer, plus larger ones
    for buflen in ([8, 16, 33] if not big else [1, 2, 8, 16, 33, 64]):
        for off in range(buflen + 1):
            for size in sorted(set([0, 1, 2, 3, 4, 7, 8, buflen - off]) if not big else set(range(0, buflen - off + 1))):
                if 0 <= size <= buflen - off:
                    cases.append(("S", buflen, off, size, bytes(rng.randrange(256) for _ in range(size))))
    for _ in range(200 if big else 20):
        buflen = rng.choice([64, 100, 1000, 4096])
        off = rng.randrange(buflen + 1)
        size = rng.choice([0, min(1, buflen - off), buflen - off, rng.randrange(buflen - off + 1)])      # never beyond the caller's buffer
        cases.append(("S", buflen, off, size, bytes(rng.randrange(256) for _ in range(size))))
    # captures: every size x position x arity, values that expose truncation / wrong half / sign
    cvals = [0, 1, -1, 0x7f, 0x80, 0xff, 0x100, 0x7fff, 0x8000, 0xffff, 0x10000, 0x7fffffff, 0x80000000, 0xffffffff, 0x100000000,
             0x0102030405060708, -0x0102030405060708, 2**63 - 1, -2**63, 0x00000001ffffffff, -2**31, -2**31 - 1]
    for size in (1, 2, 4, 8):
        for arity in range(1, 9):
            for pos in range(arity):
                vs = cvals if (big or pos in (0, arity - 1)) else [rng.choice(cvals), rng.choice(cvals)]
                for v in vs:
                    cases.append(("C", size, pos, arity, v))
                cases.append(("C", size, pos, arity, rng.randrange(-2**63, 2**63)))
    return cases


def fmt_C12(c):
    k = c[0]
    if k == "R" and len(c) > 2:
        return "R %d %s %d" % c[1:], "(R %d %d)" % (c[1], c[3])
    if k == "R":
        return "R %d" % c[1], "(R %d)" % c[1]
    if k == "D":
        return "D %016x" % c[1], "(D %d)" % c[1]
    if k == "K":
        return "K %d %016x" % (c[1], c[2]), "(D %d)" % c[2]       # the model's view of one of them: a box is a copy
    if k == "B" and len(c) > 3:
        return "B %d %s %s %d" % (c[1], hexs(c[2]), c[3], c[4]), "(B %d %s %d)" % (c[1], sxb(c[2]), c[4])
    if k == "B":
        return "B %d %s" % (c[1], hexs(c[2])), "(B %d %s)" % (c[1], sxb(c[2]))
    if k == "S":
        # the third way the same bytes reach the mock: 0 prepared before the declaration, 1 produced after it,
        # 2 refreshed between two calls served by one always_expect (same model case: the bytes at the call count)
        late = (c[1] * 7 + c[2] * 3 + c[3]) % 3
        return "S %d %d %d %s %d" % (c[1], c[2], c[3], hexs(c[4]), late), "(S %d %d %d %s)" % (c[1], c[2], c[3], sxb(c[4]))
    if k == "C":
        return "C %d %d %d %d" % c[1:], "(C %d %d)" % (c[1], c[4])


def oracle_C12(c):
    """what the property says must come out (canonical text, same form as the model's)"""
    k = c[0]
    if k == "R":
        return "R " + ";".join([str(c[1])] * (c[3] if len(c) > 2 else 1))
    if k == "D":
        return "D %d" % c[1]
    if k == "K":
        return "D %d" % c[2]
    if k == "B":
        return "B " + ";".join([hexs(c[2][:c[1]])] * (c[4] if len(c) > 3 else 1))
    if k == "S":
        buflen, off, size, src = c[1:]
        buf = bytearray((0xC0 + i % 16) for i in range(buflen))
        buf[off:off + size] = src[:size]
        return "S " + hexs(bytes(buf))
    if k == "C":
        size, pos, arity, v = c[1:]
        return "C %d %d" % (v % (1 << (8 * size)), size)


def canon_impl_C12(c, o):
    """implementation output -> canonical text"""
    toks = o.split()
    failed = toks and toks[-1] == "FAIL"
    if failed:
        toks = toks[:-1]
    k = c[0]
    try:
        if k == "R":
            res = "R " + ";".join(str(int(x)) for x in toks[1].split(";"))
        elif k == "D":
            a, b = int(toks[1], 16), int(toks[2], 16)
            res = "D %d" % a if a == b else "D %d/%d" % (a, b)
        elif k == "K":
            res = "D %d" % c[2] if toks[1] == "ok" else "box number %s of %d does not give back the bits that went in" % (toks[1], c[1])
        elif k == "B":
            res = "B " + toks[1]
        elif k == "S":
            res = "S " + toks[1]
        else:
            res = "C %d %d" % (int(toks[1]), c[1]) + ("" if toks[2] == "1" else " canary-overwritten")
    except (IndexError, ValueError):
        res = "garbled: " + o[:80]
    return res + (" FAIL" if failed else "")


def check_C12(chk):
    import check_containers as CC
    vlib.build_repo("hooks")
    build = vlib.build_repo("asan")
    drv = vlib.build_driver("probe_values", build)
    chk.prove(["Properties_C12.v"])
    chk.cov["trusted_base"] = TRUSTED_P[:1] + [
        "tools/srcfacts_c12.py (clang JSON AST + regex over the will_* macros): the stored/loaded expressions, copied pointers and byte counts of create_return_value_constraint, mock_(), create_return_by_value_constraint, stored_result_or_default_for, create_set_parameter_value_constraint, set_contents, create_capture_parameter_constraint, capture_parameter, box_double/as_double/unbox_double are re-derived from source on every run",
        "extraction: ExtrOcamlBasic only; ocaml/h_values.ml glue",
        "correspondence: harness/probe_values.c through the public macros, built with ASan+UBSan against a sanitizer build of /repo (exact-size heap blocks, canaries around captured variables); differential testing",
        "modelled, not verified: malloc/memcpy/memmove semantics (bounds-checked block copies in Values.v); that assigning or passing a C double copies its 64 bits (x86-64 SSE; exercised by the sweep over NaN payloads, signed zeros, subnormals); the varargs ABI collecting the actuals",
        "axioms: see coverage.print_assumptions"]
    gen = chk.cov.get("gen_items", {})
    if not str(gen.get("values_src", "")).startswith("derived"):
        chk.notes.append("values_src: %s" % gen.get("values_src"))
    cases = gen_C12(chk)
    impl_lines, model_lines = zip(*(fmt_C12(c) for c in cases))
    impl = CC.run_vm(drv, list(impl_lines))
    model = vlib.run_model("values", list(model_lines))
    for c, il, (o, san), m in zip(cases, impl_lines, impl, model):
        chk.case(il)
        chk.count("kind:" + c[0] + (":size%d" % c[1] if c[0] == "C" else ""))
        chk.cov["disagreements_checked"] += 1
        rp = {"case": il[:4000], "how": "echo '<case>' | ASAN_OPTIONS=detect_leaks=0 _work/bin-asan/probe_values"}
        exp = oracle_C12(c)
        if san is not None:
            chk.violation("memory-" + c[0], "transporting a value made cgreen touch memory it must not: %s (case %s)" % (san, il[:160]), dict(rp, sanitizer=san))
            if "OOB" not in m:
                chk.disagreement("%s: implementation out of bounds (%s), model %s" % (il[:120], san, m[:80]), rp)
            continue
        got = canon_impl_C12(c, o)
        if got != m:
            chk.disagreement("%s: implementation [%s] model [%s]" % (il[:120], got[:200], m[:200]), rp)
        if got != exp:
            chk.violation("value-" + c[0] + (":%d" % c[1] if c[0] == "C" else ""),
                          "%s: came out as [%s], the property requires [%s]" % (il[:160], got[:200], exp[:200]), rp)
        chk.sample({"case": il[:80], "result": got[:80]}, limit=6)
    return chk.finish()


CHECKS["C12"] = check_C12
