"""C14: a per-test time limit stops the test and fails the run in every mode."""
import os, re, time
from concurrent.futures import ThreadPoolExecutor
import vlib, layerc as L, cmp_c
import check_layerc as CL

TRUSTED = CL.TRUSTED_C + [
    "tools/srcfacts_c14.py: the exit status of the SIGALRM handler installed by die_in(), of die(), the validation expression, the parser (atoi vs strtol with full consumption) and the places where the variable is validated and the timer armed are re-derived from source on every run",
    "modelled, not verified: alarm()/SIGALRM delivery and the wall clock (kernel): whether a test overruns is an input of the model; the correspondence run observes it with 1-second limits",
]


def timeout_status():
    m = re.search(r"Definition timeout_exit_status : Z :=\s*\((-?\d+)\)", open(os.path.join(vlib.COQ, "Gen", "Facts.v")).read())
    return int(m.group(1)) if m else 1


def scenario(rng, pos, j, body_before, arm, how, others_fail):
    """three tests; the one at `pos` overruns after `j` of its checks"""
    tests = []
    for i in range(3):
        if i == pos:
            body = [("c", b) for b in body_before[:j]]
            body.append(("raw", "sleep 3000" if how == "sleep" else "spin"))
            body += [("c", 1)]
            if arm == "die_in":
                body.insert(0, ("raw", "die_in 1"))
            t = L.Test(i + 1, body=body)
            status = timeout_status()
            # model: [AReset; Mark PhBody; checks...]: the process ends after the j checks delivered so far
            t.model_kill = (2 + j, "exit", status)
            t.model_body = [("c", b) for b in body_before[:j]] + [("c", 1)]
        else:
            t = L.Test(i + 1, body=[("c", 0 if (others_fail and i == 2) else 1)])
        tests.append(t)
    return L.Suite(0, children=tests)


def check_C14(chk):
    drv = CL.setup(chk, ["Properties_C14.v"])
    chk.cov["trusted_base"] = TRUSTED + ["axioms: see coverage.print_assumptions"]
    rng = chk.rng
    status = timeout_status()
    cases, envs = [], []
    poss = [0, 1, 2]
    for pos in poss:
        for j, before in ((0, []), (1, [0]), (2, [1, 0])):
            for mode in ("forked", "inproc", ("single", pos + 1)):
                arms = ["env", "die_in"] if chk.tier == "thorough" or (pos + j) % 2 == 0 else [rng.choice(["env", "die_in"])]
                for arm in arms:
                    how = "sleep" if (pos + j) % 2 == 0 else "spin"
                    for rep in (["text", "xml", "cute"] if chk.tier == "thorough" else [rng.choice(["text", "cute", "xml"])]):
                        root = scenario(rng, pos, j, before, arm, how, others_fail=(j == 0 and pos == 0))
                        cases.append((root, rep, mode))
                        envs.append({"CGREEN_PER_TEST_TIMEOUT": "1"} if arm == "env" else {})
    # a second limit set late: the test is already under a limit of 2 s, calls die_in(2) in the last second before
    # that limit runs out, and keeps running: it must still be stopped
    for mode, first in (("forked", "env"), ("inproc", "die_in"), (("single", 2), "env")):
        body = [("c", 1), ("raw", "sleep 1400"), ("raw", "die_in 2"), ("raw", "spin"), ("c", 1)]
        if first == "die_in":
            body.insert(0, ("raw", "die_in 2"))
        t = L.Test(2, body=body)
        t.model_kill = (3, "exit", status)
        t.model_body = [("c", 1), ("c", 1)]
        root = L.Suite(0, children=[L.Test(1, body=[("c", 1)]), t, L.Test(3, body=[("c", 1)])])
        cases.append((root, "text", mode)); envs.append({"CGREEN_PER_TEST_TIMEOUT": "2"} if first == "env" else {})
    # the overrunning test is registered before a sub-suite of its suite (the sub-suite's tests then run before it,
    # or - after a change of the order - between it and the end of its suite), at the root and one level down
    for k, (arm, rep) in enumerate((("env", "text"), ("die_in", "cute"), ("die_in", "text"), ("env", "xml"))):
        body = [("raw", "spin"), ("c", 1)]
        if arm == "die_in":
            body.insert(0, ("raw", "die_in 1"))
        t = L.Test(1, body=body)
        t.model_kill = (2, "exit", status)
        t.model_body = [("c", 1)]
        inner = L.Suite(2, children=[L.Test(2, body=[("c", 1)]), L.Test(3, body=[("c", 1)])])
        owner = L.Suite(1 if k % 2 else 0, children=[t, inner, L.Test(4, body=[("c", 1)])])
        root = L.Suite(0, children=[owner, L.Test(5, body=[("c", 1)])]) if k % 2 else owner
        cases.append((root, rep, "forked")); envs.append({"CGREEN_PER_TEST_TIMEOUT": "1"} if arm == "env" else {})
    # the body returns in time and the limit runs out during the teardown (the context's AfterEach, or one that comes
    # with a suite-level fixture): the test is still running after n seconds, so it is stopped and the run fails
    for k, (mode, arm, rep) in enumerate((("forked", "env", "text"), ("inproc", "env", "text"), (("single", 2), "env", "text"),
                                          ("forked", "die_in", "cute"), ("inproc", "die_in", "text"), ("forked", "env", "xml"))):
        body = [("c", 1)]
        if arm == "die_in":
            body.insert(0, ("raw", "die_in 1"))
        t = L.Test(2, body=body, ctx_teardown=True, teardown=[("raw", "sleep 3000" if k % 2 == 0 else "spin")])
        # model: [AReset; Mark PhBody; the check; Mark PhTeardown]: the process ends inside the teardown
        t.model_kill = (4, "exit", status)
        t.model_body = [("c", 1)]
        root = L.Suite(0, children=[L.Test(1, body=[("c", 1)]), t, L.Test(3, body=[("c", 1)])])
        cases.append((root, rep, mode)); envs.append({"CGREEN_PER_TEST_TIMEOUT": "1"} if arm == "env" else {})
    # in time: the limit is set and nobody overruns
    for mode in ("forked", "inproc", ("single", 2)):
        root = L.Suite(0, children=[L.Test(1, body=[("c", 1)]), L.Test(2, body=[("c", 1), ("raw", "sleep 50"), ("c", 1)]), L.Test(3, body=[("c", 1)])])
        cases.append((root, "text", mode)); envs.append({"CGREEN_PER_TEST_TIMEOUT": "2"})
        root = L.Suite(0, children=[L.Test(1, body=[("c", 1)]), L.Test(2, body=[("c", 0)])])
        cases.append((root, "text", mode)); envs.append({"CGREEN_PER_TEST_TIMEOUT": "2"})
    # model: scripts without the raw sleeps
    def model_root(root):
        for s, t in root.tests():
            if getattr(t, "model_body", None) is not None:
                t.body_real, t.body = t.body, t.model_body
        line = None
        return root
    lines = []
    for root, rep, mode in cases:
        for s, t in root.tests():
            if getattr(t, "model_body", None) is not None:
                t.body_real, t.body = t.body, t.model_body
        lines.append(L.model_case(root, rep, mode))
        for s, t in root.tests():
            if getattr(t, "body_real", None) is not None:
                t.body = t.body_real
    mrs = [L.ModelResult(l) for l in vlib.run_model("runner", lines)]
    t0 = time.time()

    def one(i):
        st = time.time()
        r = L.run_impl(drv, cases[i][0], cases[i][1], cases[i][2], timeout=30, env_extra=envs[i])
        r.elapsed = time.time() - st
        return r
    with ThreadPoolExecutor(vlib.NPROC) as ex:
        runs = list(ex.map(one, range(len(cases))))
    for (root, rep, mode), env, run, mr in zip(cases, envs, runs, mrs):
        over = [t for s, t in root.tests() if getattr(t, "model_kill", None)]
        chk.case((L.node_sexp(root), rep, str(mode), str(env)))
        chk.count("mode:" + (mode if isinstance(mode, str) else "single"))
        chk.count("armed-by:" + ("env" if env else "die_in" if over else "nobody"))
        chk.cov["disagreements_checked"] += 1
        rp = CL.replay_of(root, rep, mode, {"env": env, "exit": run.exit, "elapsed": round(run.elapsed, 2), "stdout": run.stdout[-1500:]})
        if run.timeout:
            chk.violation("not-stopped", "the overrunning test was never stopped (run still alive after 30 s), mode %s" % (mode,), rp)
            continue
        # model vs implementation
        for t in over:
            t.body_real, t.body = t.body, t.model_body
        dis = cmp_c.model_vs_impl(root, rep, mode, run, mr)
        for t in over:
            t.body = t.body_real
        if dis:
            chk.disagreement("; ".join(dis)[:1200], rp)
        # the property itself
        if over:
            t = over[0]
            executed = mode in ("forked", "inproc") or mode[1] == t.tid
            if executed:
                chk.count("overrun-after-%d-results" % (t.model_kill[0] - 2))
                if run.exit == 0:
                    chk.violation("overrun-success-%s" % (mode if isinstance(mode, str) else "single"),
                                  "test t%d ran past its 1 s limit (stopped after %.1f s) and the run's exit status is 0, mode %s" % (t.tid, run.elapsed, mode), rp)
                # generous: the machine may be busy; a limit that is ignored shows up as the 30 s time-out above
                if run.elapsed > 1 + 14:
                    chk.violation("stopped-late", "the run took %.1f s with a 1 s limit" % run.elapsed, rp)
                elif run.elapsed > 1 + 2.5:
                    chk.count("stopped-later-than-2.5s-after-the-limit (busy machine)")
                if mode == "forked":
                    td = dict((n, c) for n, c in L.log_tdone(run))
                    if td.get(t.name, (0, 0, 0, 0))[3] != 1:
                        chk.violation("overrun-not-exception", "forked: overrunning test %s credited %s, expected exactly one exception" % (t.name, td.get(t.name)), rp)
                    for s2, t2 in root.tests():
                        if t2 is not t and td.get(t2.name) != mr.own[t2.name]:
                            chk.violation("neighbour-affected", "forked: %s credited %s, its own result is %s" % (t2.name, td.get(t2.name), mr.own[t2.name]), rp)
        else:
            bad = any(a == ("c", 0) for s, t in root.tests() for a in t.body if mode in ("forked", "inproc") or mode[1] == t.tid)
            if (run.exit != 0) != bad:
                chk.violation("in-time-affected", "nobody overran, exit status %s, failing checks: %s" % (run.exit, bad), rp)
        chk.sample({"tree": L.node_sexp(root), "mode": str(mode), "env": env, "exit": run.exit, "elapsed": round(run.elapsed, 2)}, limit=5)

    # ---- the value of the variable
    values = ["0", "-1", "abc", "", " ", "1x", "1.5", "-", "+", "2 x", "0x10", "1e3", "00", "-0", "1", "2", "30", "+1", " 2", "007", "2 ",
              "99999999999", "2147483647", "2147483648", "99999999999999999999", "\t1",
              # negative values whose low 32 (or 64) bits are a positive number
              "-4294967294", "-4294967295", "-2147483649", "-18446744073709551615", "-18446744073709551614", "-9223372036854775809",
              "-2147483648", "-99999999999", "-99999999999999999999999"]
    invalid_for_sure = {"0", "-1", "abc", "", " ", "1x", "1.5", "-", "+", "2 x", "0x10", "1e3", "00", "-0", "2 ",
                        "-4294967294", "-4294967295", "-2147483649", "-18446744073709551615", "-18446744073709551614",
                        "-9223372036854775809", "-2147483648", "-99999999999", "-99999999999999999999999"}
    valid_for_sure = {"1", "2", "30"}
    acc = vlib.run_model("runner", ["(timeout-accepts %s)" % ("e" if not v else "(" + " ".join(str(b) for b in v.encode()) + ")") for v in values])
    root = L.Suite(0, children=[L.Test(1, body=[("c", 1)])])

    def onev(v):
        return L.run_impl(drv, root, "text", "forked" if len(v) % 2 else "inproc", timeout=30, env_extra={"CGREEN_PER_TEST_TIMEOUT": v})
    with ThreadPoolExecutor(vlib.NPROC) as ex:
        vruns = list(ex.map(onev, values))
    for v, a, run in zip(values, acc, vruns):
        chk.case(("value", v))
        chk.count("value:" + ("accepted" if a == "1" else "rejected"))
        ran = any(k == "body" for pid, k, args in run.log)
        rp = {"CGREEN_PER_TEST_TIMEOUT": v, "exit": run.exit, "a_test_ran": ran, "stdout": run.stdout[-300:],
              "how": "CGREEN_PER_TEST_TIMEOUT='%s' _work/bin-hooks/scn_driver <scenario with one passing test>" % v}
        impl_accepts = ran and run.exit == 0
        impl_rejects = (not ran) and run.exit not in (0, None)
        if (a == "1") != impl_accepts or (a == "0") != impl_rejects:
            chk.disagreement("CGREEN_PER_TEST_TIMEOUT=%r: model %s, implementation exit %s, test ran: %s" % (v, "accepts" if a == "1" else "rejects", run.exit, ran), rp)
        if v in invalid_for_sure and not impl_rejects:
            chk.violation("invalid-value-accepted", "CGREEN_PER_TEST_TIMEOUT=%r is not a positive integer but the run went on (exit %s, a test ran: %s)" % (v, run.exit, ran), rp)
        if v in valid_for_sure and not impl_accepts:
            chk.violation("valid-value-rejected", "CGREEN_PER_TEST_TIMEOUT=%r rejected" % v, rp)
    return chk.finish()


CHECKS = {"C14": check_C14}
