"""Checks C01 C02 C03 C04 C08 C13 C17 C18: the runner / result protocol / reporter layer."""
import itertools, os, sys
from concurrent.futures import ThreadPoolExecutor
import vlib, layerc as L, gen_c, cmp_c

TRUSTED_C = [
    "Coq 8.16.1 kernel (coqc, full .vo build; vm_compute used only for table checks and witnesses; no native_compute)",
    "tools/srcfacts.py + clang JSON AST: verdict expressions, reporter counter resets/folds, record enum are re-derived from source on every run",
    "extraction: ExtrOcamlBasic only (no Extract Constant); ocaml/util.ml, h_runner.ml, driver.ml glue",
    "correspondence harness: harness/scn_driver.c, tools/layerc.py, cmp_c.py, gen_c.py (differential testing; bounds how well Runner.v is known to match the code)",
    "modelled, not verified: fork/wait/pipe/signal semantics of the kernel (a record written before the writer dies stays readable; wait returns the child's status); stdio flushing",
]


def setup(chk, props):
    build = vlib.build_repo("hooks")
    drv = vlib.build_driver("scn_driver", build, libs=("-lcgreen", "-lxml2"))
    # the functions of src/reporter.c translated whole from the current source, and the proofs that
    # they compute what Runner.v's read_results / base_finish_test / base_finish_suite say
    chk.prove(props + ["Properties_Code_Reporter.v", "Properties_Code_Cute.v", "Properties_Code_Runner.v"])
    chk.cov["trusted_base"] = TRUSTED_C + [
        "tools/srccode.py + clang JSON AST: read_reporter_results(), reporter_finish_test(), reporter_finish_suite() and the notification functions are translated whole (loops included) into CLite programs on every run; coq/CLite.v (the interpreter that gives them meaning) and the refinement proofs of Lemmas_Code_Reporter.v tie Runner.v's model of them to the code",
        "Properties_Code_Cute.v: cute_start_test(), cute_finish_test(), cute_failed_to_complete() of src/cute_reporter.c are translated whole into the same program as the base reporter's functions they call and proved: the '#success' line is printed exactly when the counters credited to the test across finish_test show no failure and no exception (Runner.finish_test's clean flag), for every pipe content; cute_start_suite() / cute_finish_suite(): counters restart at zero, at the end of the outermost suite every counter is added to its total and the '#ending' line prints those sums; printf and the breadcrumb functions are external calls recorded with their arguments",
        "run_every_test(), run_named_test() (src/runner.c) with has_test(), count_tests() (src/suite.c) are translated whole and run by the extracted interpreter on heaps built from every small suite tree; the order of suite starts, suite fixtures, tests and suite ends is compared with Runner.run_node / run_named (function-level correspondence, not a proof)",
        "likewise run_the_test_code(), run_test_in_the_current_process(), run_test_suite(), run_single_test() of src/runner.c and in_child_process(), die_in(), stop() of src/posix_runner_platform.c (Properties_Code_Runner.v): the order of reset / setup / body / teardown / tally / completion that Runner.child_steps assumes is the order of calls of the translated code; external functions are calls recorded in a trace, answering from streams",
        "axioms: see coverage.print_assumptions"]
    import codetie
    chk.code_cases = codetie.reporter_cases(chk)
    # run_every_test() / run_named_test() (with has_test, count_tests of src/suite.c) translated whole and run by the
    # extracted interpreter on every small tree against the order of events of Runner.run_node / run_named; trees on
    # which they differ go to the real runner as well
    for line, root in codetie.walk(chk)[:8]:
        mode = "forked" if line.startswith("(walk forked") else "inproc" if line.startswith("(walk inproc") else ("single", int(line.split()[1]))
        for rep in ("text", "cute"):
            chk.code_cases.append((root, rep, mode))
    return drv


def run_cases(drv, cases, timeout=60, env_extra=None):
    """cases: list of (root, reporter, mode) -> (runs, model results)"""
    lines = [L.model_case(r, rep, m, cap) if False else L.model_case(r, rep, m) for r, rep, m in cases]
    mrs = [L.ModelResult(l) for l in vlib.run_model("runner", lines)]
    with ThreadPoolExecutor(vlib.NPROC) as ex:
        runs = list(ex.map(lambda c: L.run_impl(drv, c[0], c[1], c[2], timeout=timeout, env_extra=env_extra), cases))
    return runs, mrs


def replay_of(root, reporter, mode, extra=None):
    r = {"scenario": L.scn_text(root, reporter, mode, "events.log"), "model_case": L.model_case(root, reporter, mode),
         "reporter": reporter, "mode": str(mode),
         "how": "write scenario to a file and run _work/bin-hooks/scn_driver <file> (CGREEN_NO_FORK=1 for mode inproc)"}
    if extra:
        r.update(extra)
    return r


# ---------------------------------------------------------------------------------------
# classification of scenario corners that are known findings
# ---------------------------------------------------------------------------------------
def test_corners(s, t, mode):
    """signatures of the known-finding corners this test is itself in"""
    sigs = set()
    if t.skip:
        return sigs
    a_s, a_t = L.applicable(s, t)
    acts = (t.setup if a_s else []) + t.body + (t.teardown if a_t else [])
    died = False
    skipped = False
    for a in acts:
        if a[0] == "skip":
            skipped = True
        if a[0] == "die":
            died = True
            if skipped:
                sigs.add("skip-then-die")
            if mode != "forked" and a[1] in ("exit", "_exit") and a[2] == 0:
                sigs.add("inproc-exit0")
            break
    if t.kill and not died:
        point, nth, how = t.kill
        if point in ("after_completion", "at_stop") or (point == "after_write" and nth >= len(t.body)):
            if how[0] == "sig":
                sigs.add("die-after-completion")
        elif skipped:
            sigs.add("skip-then-die")
        if mode != "forked" and how[0] != "sig" and how[1] == 0 and point not in ("after_completion", "at_stop"):
            sigs.add("inproc-exit0")
    return sigs


def corners(root, mode):
    """signatures of the known-finding corners present in the scenario"""
    sigs = set()
    for s, t in root.tests():
        sigs |= test_corners(s, t, mode)
    return sigs


def any_bad(mr):
    return any(o[1] > 0 or o[3] > 0 for o in mr.own.values())


def nontrivial(root):
    return any((not t.skip) and any(a[0] != "c" or a[1] == 0 for a in t.body + t.setup + t.teardown) or t.kill
               for s, t in root.tests()) or sum(1 for _ in root.suites()) > 1


def executed_tests(root, mode):
    if mode in ("forked", "inproc"):
        return [t.name for s, t in root.tests()]
    return ["t%d" % mode[1]]


# ---------------------------------------------------------------------------------------
def gen_cases(chk, n_trees, modes=("forked", "inproc"), reporters=L.REPORTERS, **genopts):
    cases = []
    for i in range(n_trees):
        r = chk.rng.random()
        if r < 0.2:
            root = gen_c.gen_tree(chk.rng, all_good=True, **genopts)
            chk.count("tree:all-good")
        elif r < 0.45:
            root = gen_c.gen_tree(chk.rng, all_good=True, **genopts)
            gen_c.plant_one_bad(chk.rng, root)
            chk.count("tree:one-bad-late-or-deep")
        else:
            root = gen_c.gen_tree(chk.rng, fw_acts=(i % 3 == 0), **genopts)
            chk.count("tree:mixed")
        for rep in reporters:
            for m in modes:
                cases.append((root, rep, m))
    return cases


def corner_cases(reporters=("text", "cute", "xml"), modes=("forked",), which=("skip-then-die", "die-after-completion", "inproc-exit0")):
    """fixed scenarios for the corners listed in known_findings.txt (run first, every time)"""
    from layerc import Test, Suite
    cases = []
    if "skip-then-die" in which:
        for rep in reporters:
            for m in modes:
                root = Suite(0, children=[Test(0, body=[("c", 1)]), Test(1, body=[("skip",), ("die", "sig", 11)]), Test(2, body=[("c", 1)])])
                cases.append((root, rep, m))
    if "die-after-completion" in which:
        for rep in reporters:
            root = Suite(0, children=[Test(0, body=[("c", 1)], kill=("at_stop", 0, ("sig", 11))), Test(1, body=[("c", 1)])])
            cases.append((root, rep, "forked"))
    if "inproc-exit0" in which:
        root = Suite(0, children=[Test(0, body=[("c", 0), ("die", "exit", 0)]), Test(1, body=[("c", 1)])])
        cases.append((root, "text", "inproc"))
    if "mock-parameter" in which:
        # a mocked call that violates its when() clause is one failing check whichever process counts it
        # (forked, CGREEN_NO_FORK, one test by name)
        for rep in reporters:
            for m in ("forked", "inproc", ("single", 1)):
                root = Suite(0, children=[Test(0, body=[("c", 1)]), Test(1, body=[("c", 1), ("badparam",), ("c", 1)]),
                                          Test(2, body=[("badparam",)])])
                cases.append((root, rep, m))
    return cases


def account(chk, root, rep, mode):
    chk.case((L.node_sexp(root), rep, str(mode)), nontrivial(root))
    chk.count("reporter:" + rep)
    chk.count("mode:" + (mode if isinstance(mode, str) else "single"))
    for s, t in root.tests():
        if t.skip:
            chk.count("test:xEnsure")
        elif t.kill:
            chk.count("test:killed-at-" + t.kill[0])
        elif any(a[0] == "die" for a in t.body):
            chk.count("test:dies-in-body")
        elif any(a[0] == "skip" for a in t.body):
            chk.count("test:skip_test()")
        elif any(a == ("c", 0) for a in t.body + t.setup + t.teardown):
            chk.count("test:failing")
        elif not t.body:
            chk.count("test:assertion-free")
        else:
            chk.count("test:passing")


def correspondence(chk, cases, runs, mrs):
    for (root, rep, mode), run, mr in zip(cases, runs, mrs):
        account(chk, root, rep, mode)
        dis = cmp_c.model_vs_impl(root, rep, mode, run, mr)
        chk.cov["disagreements_checked"] += 1
        if dis:
            chk.disagreement("; ".join(dis)[:1500], replay_of(root, rep, mode, {"stdout": run.stdout[-3000:]}))
        chk.sample({"tree": L.node_sexp(root), "reporter": rep, "mode": str(mode), "exit": run.exit,
                    "model": mr.kind + " " + str(mr.expected_exit())}, limit=4)


# ---------------------------------------------------------------------------------------
# C01
# ---------------------------------------------------------------------------------------
def check_C01(chk):
    drv = setup(chk, ["Properties_C01.v"])
    n = 12 if chk.tier == "quick" else 250
    cases = corner_cases() + chk.code_cases + gen_cases(chk, n)
    # a failing, a dying and an exiting test registered BEFORE a sub-suite of the same suite, at two depths
    for bad in ([("c", 0)], [("c", 1), ("die", "sig", 11)], [("die", "exit", 3)]):
        for rep in (L.REPORTERS if chk.tier == "thorough" else [chk.rng.choice(L.REPORTERS)]):
            inner = L.Suite(1, children=[L.Test(1, body=[("c", 1)])])
            cases.append((L.Suite(0, children=[L.Test(0, body=list(bad)), inner, L.Test(2, body=[("c", 1)])]), rep, "forked"))
            deep = L.Suite(2, children=[L.Test(0, body=list(bad)), L.Suite(3, children=[L.Test(1, body=[("c", 1)])])])
            cases.append((L.Suite(0, children=[L.Suite(1, children=[deep]), L.Test(2, body=[("c", 1)])]), rep, "forked"))
    # suites without any test (an empty suite, a suite of empty suites) first, in the middle and last among the
    # entries of a suite - the root or a nested one - that has a failing or dying test of its own
    for bad in ([("c", 1), ("c", 0)], [("die", "sig", 6)]):
        for pos in (0, 1, 2):
            for nested in (False, True):
                for rep in (L.REPORTERS if chk.tier == "thorough" else ["text", chk.rng.choice(L.REPORTERS[1:])]):
                    hollow = L.Suite(5, children=[L.Suite(6, children=[])]) if (pos + nested) % 2 else L.Suite(5, children=[])
                    kids = [L.Test(0, body=[("c", 1)]), L.Test(1, body=list(bad))]
                    kids.insert(pos, hollow)
                    owner = L.Suite(1 if nested else 0, children=kids)       # (the driver wants the root to be suite 0)
                    root = L.Suite(0, children=[owner, L.Test(2, body=[("c", 1)])]) if nested else owner
                    cases.append((root, rep, "forked"))
    # single-test mode on a few trees
    for i in range(4 if chk.tier == "quick" else 60):
        root = gen_c.gen_tree(chk.rng, max_depth=2)
        ts = [t for s, t in root.tests()]
        if ts:
            t = chk.rng.choice(ts)
            cases.append((root, chk.rng.choice(L.REPORTERS), ("single", t.tid)))
    runs, mrs = run_cases(drv, cases)
    correspondence(chk, cases, runs, mrs)
    for (root, rep, mode), run, mr in zip(cases, runs, mrs):
        if run.timeout:
            chk.violation("nontermination", "run did not terminate", replay_of(root, rep, mode))
            continue
        cs = corners(root, mode)
        if isinstance(mode, tuple):
            # run_single_test: only the named test counts
            bad = mr.own["t%d" % mode[1]][1] > 0 or mr.own["t%d" % mode[1]][3] > 0
        elif mode == "inproc":
            # the run ends at the first test that dies: only the tests up to it were executed
            bad = False
            for name in mr.started():
                o = mr.own[name]
                if o[1] > 0 or o[3] > 0:
                    bad = True
                if o[3] > 0:
                    break
        else:
            bad = any_bad(mr)
        failed = run.exit != 0
        if failed != bad:
            if mode == "forked" and cs:
                # a known corner excuses a passing verdict only when every test that failed or ended abnormally is
                # itself in such a corner: another dying or failing test in the same run must still fail the run
                tcs = {t.name: test_corners(s_, t, mode) for s_, t in root.tests()}
                if any((o[1] > 0 or o[3] > 0) and not tcs.get(nm) for nm, o in mr.own.items()):
                    cs = set()
            sig = sorted(cs)[0] if cs else "verdict-%s-%s" % (rep, mode if isinstance(mode, str) else "single")
            chk.violation(sig, "verdict %s but %s (reporter %s, mode %s)" % (
                "failure" if failed else "success",
                "some check failed or a test ended abnormally" if bad else "every check passed and every test completed",
                rep, mode), replay_of(root, rep, mode, {"exit": run.exit, "stdout": run.stdout[-2000:]}))
    # ---- a check that fails in a suite-level fixture run around a sub-suite (in the runner's process; its record is
    # read when the next test or the suite finishes) is a failed assertion somewhere in the suite tree: the verdict is
    # failure.  The runner model has no scripts for these fixtures: the implementation alone is judged here.
    T, S = L.Test, L.Suite
    fx = []
    for rep in (L.REPORTERS if chk.tier == "thorough" else ["text", "xml", "libxml", "cute"]):
        for which in ("t", "s"):
            # s1 has only a sub-suite; its teardown runs after the last sub-suite, right before s1 finishes
            fx.append((S(0, children=[S(1, has_setup=True, has_teardown=True, children=[S(2, children=[T(0, body=[("c", 1)])])]), T(1, body=[("c", 1)])]), rep, which, "s1"))
            # the outermost suite itself
            fx.append((S(0, has_setup=True, has_teardown=True, children=[S(1, children=[T(0, body=[("c", 1)])])]), rep, which, "s0"))
    with ThreadPoolExecutor(vlib.NPROC) as ex:
        fruns = list(ex.map(lambda c: L.run_impl(drv, c[0], c[1], "forked", scn_extra="F 90 %s\na 90 %s fail\n" % (c[3], c[2])), fx))
    for (root, rep, which, sname), run in zip(fx, fruns):
        chk.case(("suite-fixture", rep, which, sname))
        chk.count("suite-fixture-check:" + ("teardown" if which == "t" else "setup"))
        if run.timeout:
            chk.violation("nontermination", "run did not terminate", replay_of(root, rep, "forked"))
        elif run.exit == 0:
            chk.violation("verdict-suite-fixture-%s" % rep, "a check fails in the %s of suite %s (run around its sub-suite) and the verdict is success (reporter %s)" % (
                "teardown" if which == "t" else "setup", sname, rep),
                replay_of(root, rep, "forked", {"extra_scenario_lines": "F 90 %s / a 90 %s fail" % (sname, which), "exit": run.exit, "stdout": run.stdout[-1500:]}))
    runner_cases_C01(chk)
    return chk.finish()


def runner_cases_C01(chk):
    """cgreen-runner on one or several generated libraries: exit status = OR over libraries."""
    import check_runner
    check_runner.verdict_cases(chk)


# ---------------------------------------------------------------------------------------
# C03
# ---------------------------------------------------------------------------------------
def check_C03(chk):
    drv = setup(chk, ["Properties_C03.v"])
    n = 12 if chk.tier == "quick" else 250
    cases = corner_cases(which=("skip-then-die", "die-after-completion")) + corner_cases(reporters=("text", "xml"), which=("mock-parameter",)) + chk.code_cases + gen_cases(chk, n, modes=("forked",))
    cases += gen_cases(chk, max(3, n // 4), modes=("inproc",), kinds=[("pass", 4), ("fail", 3), ("empty", 1), ("xensure", 1), ("skiptest", 2), ("mixed", 2)])
    runs, mrs = run_cases(drv, cases)
    correspondence(chk, cases, runs, mrs)
    for (root, rep, mode), run, mr in zip(cases, runs, mrs):
        if run.timeout or mr.kind == "crash":
            continue
        cs = corners(root, mode)
        sigp = ""
        if cs:
            # every symptom of a listed corner in a scenario that contains it is that finding
            class _K(str):
                def __add__(self, other):
                    return str(self)
            sigp = _K(sorted(cs)[0])
        rp = lambda extra=None: replay_of(root, rep, mode, {"stdout": run.stdout[-2500:], **(extra or {})})
        own = mr.own
        # per-test credits
        tcs = {t.name: sorted(test_corners(s_, t, mode)) for s_, t in root.tests()} if mode == "forked" else None
        for name, delta in L.log_tdone(run):
            if delta != own[name]:
                # in a forked run a known corner excuses the credit of the test that is in it, not its neighbours'
                sg = sigp + "credit" if tcs is None else (tcs[name][0] if tcs.get(name) else "credit")
                chk.violation(sg, "test %s credited %s but its own results are %s (passes, failures, skips, exceptions)" % (name, delta, own[name]), rp())
        # totals and subtotals
        sd = L.log_sdone(run)
        tot = sd[-1][3] if sd else None
        exp = tuple(sum(own[n][i] for n in executed_tests(root, mode)) for i in range(4))
        if tot != exp:
            chk.violation(sigp + "totals", "totals %s but %s happened" % (tot, exp), rp())
        sub = tuple(sum(c[i] for n, c, d, t in sd) for i in range(4))
        if tot is not None and sub != tot:
            chk.violation(sigp + "subtotals", "per-suite subtotals add up to %s, grand total %s" % (sub, tot), rp())
        crumbs = cmp_c.crumb_names(root)
        if rep == "text":
            t = L.parse_text(run.stdout)
            if t["completed"] != exp:
                chk.violation(sigp + "text-completed", "Completed line %s but %s happened" % (t["completed"], exp), rp())
            psub = tuple(sum(c[i] for n, c in t["suites"]) for i in range(4))
            if t["completed"] is not None and psub != t["completed"]:
                chk.violation(sigp + "text-subtotals", "printed per-suite lines add up to %s, Completed line %s" % (psub, t["completed"]), rp())
            expf = sorted(tuple(crumbs[n][1:]) for n in executed_tests(root, mode) for _ in range(own[n][1]))
            gotf = sorted(tuple(c) for c, ln, m in t["failures"])
            if gotf != expf:
                chk.violation(sigp + "text-failure-lines", "failure lines name %s, failures were produced by %s" % (gotf, expf), rp())
            expe = sorted(tuple(crumbs[n][1:]) for n in executed_tests(root, mode) for _ in range(own[n][3]))
            gote = sorted(tuple(c) for c, ln, m in t["exceptions"])
            if gote != expe:
                chk.violation(sigp + "text-exception-lines", "exception lines name %s, abnormal ends were %s" % (gote, expe), rp())
        if rep == "cute":
            c = L.parse_cute(run.stdout)
            for n in executed_tests(root, mode):
                ok = own[n][1] == 0 and own[n][3] == 0
                marked = c["status"].get(n, []) == ["success"]
                if ok != marked:
                    chk.violation(sigp + "cute-status", "CUTE marks %s %s but it had %d failures, %d exceptions" % (
                        n, "successful" if marked else "not successful", own[n][1], own[n][3]), rp())
            if c["totals"] != (exp[0], exp[1], exp[3]):
                chk.violation(sigp + "cute-totals", "CUTE totals %s but %s happened" % (c["totals"], exp), rp())
        if rep in ("xml", "libxml"):
            try:
                x = L.parse_xml_files(run.files)
            except Exception as ex:
                chk.violation(sigp + "xml-malformed", "report is not well-formed: %s" % ex, rp())
                continue
            got = {c[0]: (c[2], c[3], c[4]) for f in x.values() for c in f["cases"]}
            for n in executed_tests(root, mode):
                e = (own[n][1], own[n][3], own[n][2])
                if got.get(n) != e:
                    chk.violation(sigp + "xml-status", "%s testcase %s shows (failures, errors, skipped) %s but %s happened" % (rep, n, got.get(n), e), rp())
    # a run in the runner's own process followed by a forked run with the same reporter object (run_single_test
    # then run_test_suite in one program; two libraries on one cgreen-runner command line): the second run's
    # credits and subtotals are what its tests produced
    kinds2 = [("pass", 3), ("fail", 3), ("skiptest", 1), ("xensure", 1), ("mixed", 3)]
    for k in range(3 if chk.tier == "quick" else 25):
        root = gen_c.gen_tree(chk.rng, max_depth=chk.rng.choice([0, 1, 2]), max_tests=5, kinds=kinds2)
        for rep in (["text", "cute"] if k == 0 else [chk.rng.choice(["text", "cute", "xml"])]):
            run = L.run_impl(drv, root, rep, "inproc-forked")
            mr = L.ModelResult(vlib.run_model("runner", [L.model_case(root, rep, "forked")])[0])
            chk.case(("inproc-forked", L.node_sexp(root), rep))
            chk.count("mode:inproc-then-forked")
            rp2 = replay_of(root, rep, "forked", {"scenario": L.scn_text(root, rep, "inproc-forked", "events.log"), "stdout": run.stdout[-2000:]})
            td = L.log_tdone(run)
            second = td[len(td) // 2:]
            for name, delta in second:
                if delta != mr.own[name]:
                    chk.violation("credit-second-run", "second (forked) run after an in-process run: test %s credited %s but its own results are %s" % (name, delta, mr.own[name]), rp2)
            sd = L.log_sdone(run)
            sd2 = sd[len(sd) // 2:]
            exp = tuple(sum(mr.own[n][i] for n in executed_tests(root, "forked")) for i in range(4))
            sub = tuple(sum(c[i] for n, c, d, t in sd2) for i in range(4))
            if sd2 and sub != exp:
                chk.violation("subtotals-second-run", "second (forked) run after an in-process run: per-suite subtotals add up to %s but %s happened" % (sub, exp), rp2)
            if rep == "text" and run.stdout.count("Running ") >= 2:
                t2 = L.parse_text(run.stdout[run.stdout.rfind("Running "):])
                psub = tuple(sum(c[i] for n, c in t2["suites"]) for i in range(4))
                if psub != exp:
                    chk.violation("text-subtotals-second-run", "second (forked) run after an in-process run: printed per-suite lines add up to %s but %s happened" % (psub, exp), rp2)
    # ---- a check that fails in a suite-level fixture run around a sub-suite (in the runner's process; its record is read
    # when the next test or the suite finishes) is a failing check that happened: it must be in the totals.  Judged on the
    # implementation alone (the runner model has no scripts for these fixtures)
    T, S = L.Test, L.Suite
    fx = []
    for rep in ("text", "cute", "xml", "libxml"):
        fx.append((S(0, children=[S(1, has_setup=True, has_teardown=True, children=[S(2, children=[T(0, body=[("c", 1)])])]), T(1, body=[("c", 1)])]), rep, "t", "s1", 2))
        fx.append((S(0, has_setup=True, has_teardown=True, children=[S(1, children=[T(0, body=[("c", 1)])])]), rep, "t", "s0", 1))
    with ThreadPoolExecutor(vlib.NPROC) as ex:
        fruns = list(ex.map(lambda c: L.run_impl(drv, c[0], c[1], "forked", scn_extra="F 90 %s\na 90 %s fail\n" % (c[3], c[2])), fx))
    for (root, rep, which, sname, npass), run in zip(fx, fruns):
        chk.case(("suite-fixture", rep, which, sname))
        chk.count("suite-fixture-check")
        sd = L.log_sdone(run)
        tot = None
        for row in sd:
            if row[2] == 0:
                tot = row[3]
        if run.timeout or tot is None:
            continue
        if tot != (npass, 1, 0, 0):
            chk.violation("totals-suite-fixture", "a check fails in the teardown of suite %s (run around its sub-suite): totals %s, but %d passes and 1 failure happened (reporter %s)" % (
                sname, tot, npass, rep), replay_of(root, rep, "forked", {"extra_scenario_lines": "F 90 %s / a 90 t fail" % sname, "stdout": run.stdout[-1500:]}))
    return chk.finish()


# ---------------------------------------------------------------------------------------
# C17
# ---------------------------------------------------------------------------------------
def check_C17(chk):
    drv = setup(chk, ["Properties_C17.v"])
    n = 10 if chk.tier == "quick" else 200
    cases = gen_cases(chk, n, modes=("forked",))
    cases += gen_cases(chk, max(2, n // 5), modes=("inproc",), kinds=[("pass", 4), ("fail", 3), ("empty", 1), ("xensure", 1), ("skiptest", 2), ("mixed", 2)])
    runs, mrs = run_cases(drv, cases)
    correspondence(chk, cases, runs, mrs)
    by_tree = {}
    for (root, rep, mode), run, mr in zip(cases, runs, mrs):
        by_tree.setdefault((id(root), str(mode)), []).append((root, rep, mode, run, mr))
    for group in by_tree.values():
        obs = []
        for root, rep, mode, run, mr in group:
            if run.timeout:
                chk.violation("nontermination-" + rep, "run did not terminate", replay_of(root, rep, mode))
                continue
            if mr.kind == "crash":
                continue        # the runner's own process ended (in-process death): nothing to compare
            sd = L.log_sdone(run)
            obs.append((rep, run.exit != 0, sd[-1][3] if sd else None, L.log_tdone(run),
                        cmp_c.reported_counts(rep, run), root, mode, run))
        for a, b in itertools.combinations(obs, 2):
            ra, rb = a[0], b[0]
            rp = replay_of(a[5], ra, a[6], {"other_reporter": rb, "stdout": a[7].stdout[-1500:], "other_stdout": b[7].stdout[-1500:]})
            if a[1] != b[1]:
                chk.violation("verdict-%s-%s" % (ra, rb), "verdict differs between reporters %s (%s) and %s (%s)" % (ra, a[1], rb, b[1]), rp)
            if a[2] != b[2]:
                chk.violation("counts-%s-%s" % (ra, rb), "counted totals differ: %s %s, %s %s" % (ra, a[2], rb, b[2]), rp)
            if a[3] != b[3]:
                chk.violation("attribution-%s-%s" % (ra, rb), "per-test credits differ: %s %s, %s %s" % (ra, a[3], rb, b[3]), rp)
            ca, cb = a[4], b[4]
            if ca is None and ra != "quiet":
                chk.violation("unreadable-" + ra, "native output of %s shows no totals / is unreadable" % ra, rp)
            if ca and cb:
                for k in ("p", "f", "s", "e", "exc_tests", "fail_tests"):
                    if k in ca and k in cb and ca[k] != cb[k]:
                        if k == "fail_tests" and "cute" in (ra, rb):
                            continue
                        chk.violation("reported-%s-%s-%s" % (k, ra, rb), "reported %s differs: %s shows %s, %s shows %s" % (
                            {"p": "passes", "f": "failures", "s": "skips", "e": "exceptions", "exc_tests": "tests with exceptions",
                             "fail_tests": "tests with failures"}[k], ra, ca[k], rb, cb[k]), rp)
    # one reporter object serving two consecutive runs (what cgreen-runner does for several libraries)
    T = L.Test
    trees = [L.Suite(0, children=[T(0, body=[("c", 1)]), T(1, body=[("c", 0), ("c", 1)])]),
             L.Suite(0, children=[L.Suite(1, children=[T(0, body=[("c", 1)])]), T(1, body=[("die", "sig", 11)])]),
             L.Suite(0, children=[T(0, body=[("c", 1)]), T(1, body=[("c", 1)])])]
    for root in trees:
        obs = {}
        for rep in L.REPORTERS:
            run = L.run_impl(drv, root, rep, "twice")
            m = vlib.run_model("runner", ["(twice %s forked 4096 %s)" % (rep, L.node_sexp(root))])[0].split("|")[0].split()
            chk.case(("twice", L.node_sexp(root), rep))
            chk.count("mode:twice")
            chk.cov["disagreements_checked"] += 1
            verdicts = [a[0] for pid, k, a in run.log if k == "verdict"]
            tops = [row[3] for row in L.log_sdone(run) if row[2] == 0]
            obs[rep] = (verdicts, tops[-1] if tops else None)
            rp = replay_of(root, rep, "forked", {"scenario": L.scn_text(root, rep, "twice", "events.log"), "stdout": run.stdout[-1200:]})
            if len(m) == 6 and (verdicts != m[:2] or (tops and tuple(map(int, m[2:6])) != tops[-1])):
                chk.disagreement("two runs with one %s reporter: verdicts %s totals %s, model %s" % (rep, verdicts, tops[-1] if tops else None, m), rp)
        for ra, rb in itertools.combinations(L.REPORTERS, 2):
            if obs[ra] != obs[rb]:
                chk.violation("two-runs-%s-%s" % (ra, rb), "two consecutive runs with one reporter object: %s gives verdicts %s and totals %s, %s gives %s and %s" % (
                    ra, obs[ra][0], obs[ra][1], rb, obs[rb][0], obs[rb][1]),
                    replay_of(root, ra, "forked", {"scenario": L.scn_text(root, ra, "twice", "events.log"), "other_reporter": rb}))
    return chk.finish()


# ---------------------------------------------------------------------------------------
# C02: a dying test is one exception and harms nobody
# ---------------------------------------------------------------------------------------
HOWS = [("sig", 11), ("sig", 9), ("sig", 6), ("sig", 15), ("sig", 13), ("exit", 0), ("_exit", 0)]


def kill_variants(chk, root, full):
    """(tree copy with one test killed at one instrumented point in one way)"""
    import copy
    res = []
    tests = [t for s, t in root.tests() if not t.skip]
    if not tests:
        return res
    targets = tests if full else [chk.rng.choice(tests)]
    for t in targets:
        points = [(p, 0) for p in gen_c.FRAMEWORK_POINTS]
        if all(a[0] == "c" for a in t.body) and not t.setup and not t.teardown:
            for n in range(len(t.body) + 1):
                points.append(("before_write", n))
                points.append(("after_write", n))
        for point, nth in points:
            hows = HOWS if full else [chk.rng.choice(HOWS), chk.rng.choice(HOWS[:5])]
            for how in hows:
                r2 = copy.deepcopy(root)
                for s2, t2 in r2.tests():
                    if t2.tid == t.tid:
                        t2.kill = (point, nth, how)
                res.append((r2, t.tid))
    return res


def check_C02(chk):
    import copy
    drv = setup(chk, ["Properties_C02.v"])
    cases = []
    victims = []
    ntrees = 3 if chk.tier == "quick" else 40
    kinds_hist = [("pass", 4), ("fail", 2), ("empty", 1), ("xensure", 1), ("skiptest", 2), ("signal", 1), ("exit", 1), ("mixed", 2)]
    for i in range(ntrees):
        root = gen_c.gen_tree(chk.rng, max_depth=2, max_tests=6, kinds=kinds_hist, fw_acts=(i % 2 == 0))
        # make sure some test has a plain body of checks (write points) and one is preceded by a skip_test() test
        ts = [t for s, t in root.tests()]
        if ts:
            ts[-1].skip = False
            ts[-1].body = gen_c.gen_checks(chk.rng, 3)
            ts[-1].setup, ts[-1].teardown = [], []
        for r2, victim in kill_variants(chk, root, full=(i == 0 or chk.tier == "thorough")):
            rep = chk.rng.choice(["text", "text", "cute", "xml", "libxml", "cdash"])
            cases.append((r2, rep, "forked"))
            victims.append(victim)
    # body-internal boundaries: a scripted death between any two checks, every way of dying
    for i in range(4 if chk.tier == "quick" else 60):
        root = gen_c.gen_tree(chk.rng, max_depth=1, max_tests=5, kinds=kinds_hist)
        ts = [t for s, t in root.tests() if not t.skip]
        if not ts:
            continue
        t = chk.rng.choice(ts)
        t.body = gen_c.gen_checks(chk.rng, 4)
        for pos in range(len(t.body) + 1):
            for how in (HOWS if chk.tier == "thorough" else [chk.rng.choice(HOWS)]):
                r2 = copy.deepcopy(root)
                for s2, t2 in r2.tests():
                    if t2.tid == t.tid:
                        t2.body.insert(pos, ("die", how[0], how[1]))
                cases.append((r2, "text", "forked"))
                victims.append(t.tid)
    fixed = corner_cases(reporters=("text",), which=("skip-then-die", "die-after-completion"))
    cases = fixed + cases
    victims = [1] * (len(fixed) - 1) + [0] + victims
    # histories in which the test before the dying one called skip_test() and died itself (no completion notice
    # in between): whatever the reader remembers of that test, the next one is one exception all the same
    T, S = L.Test, L.Suite
    for rep in (("text", "cute") if chk.tier == "quick" else ("text", "cute", "xml", "libxml", "cdash")):
        for how in ((("sig", 11), ("exit", 0)) if chk.tier == "quick" else HOWS):
            hist = [
                S(0, children=[T(0, body=[("skip",), ("die", "sig", 9)]), T(1, body=[("die", how[0], how[1])]), T(2, body=[("c", 1)])]),
                S(0, children=[T(0, body=[("c", 1)]), T(3, body=[("c", 1), ("skip",), ("die", "sig", 11)]),
                               T(1, body=[("c", 1), ("c", 0), ("die", how[0], how[1])]), T(2, body=[("c", 1)])]),
                S(0, children=[S(1, children=[T(0, body=[("skip",), ("die", "exit", 3)])]), T(1, body=[("c", 1)], kill=("after_body", 0, how)), T(2, body=[("c", 0)])]),
            ]
            for root in hist:
                cases.append((root, rep, "forked"))
                victims.append(1)
    runs, mrs = run_cases(drv, cases)
    correspondence(chk, cases, runs, mrs)
    # reference runs without the dying test: the neighbours must be credited the same
    refs = {}
    ref_cases = []
    for (root, rep, mode), victim in zip(cases, victims):
        r3 = copy.deepcopy(root)

        def strip(s):
            s.children = [c for c in s.children if not (isinstance(c, L.Test) and c.tid == victim)]
            for c in s.children:
                if isinstance(c, L.Suite):
                    strip(c)
        strip(r3)
        ref_cases.append((r3, "text", "forked"))
    if chk.tier == "thorough" or True:
        uniq = {}
        for rc in ref_cases:
            uniq.setdefault(L.node_sexp(rc[0]), rc)
        keys = list(uniq)
        rruns, _ = run_cases(drv, [uniq[k] for k in keys])
        refs = {k: dict(L.log_tdone(r)) for k, r in zip(keys, rruns)}
    for (root, rep, mode), victim, run, mr, rc in zip(cases, victims, runs, mrs, ref_cases):
        vname = "t%d" % victim
        # a known corner excuses only the test that is in it (and the verdict when no other test died): a dying
        # test that follows a skip_test()-then-die test is still one exception, and its neighbours still get their own
        tcs = {t.name: test_corners(s_, t, mode) for s_, t in root.tests()}
        cs = tcs.get(vname, set())
        sig0 = sorted(cs)[0] if cs else None
        rp = lambda: replay_of(root, rep, mode, {"dying_test": vname, "stdout": run.stdout[-2000:]})
        if run.timeout:
            chk.violation("nontermination", "run with a dying test did not terminate", rp())
            continue
        td = dict(L.log_tdone(run))
        own = mr.own
        vt = [t for s, t in root.tests() if t.tid == victim][0]
        dies = own[vname][3] > 0
        chk.count("victim-dies" if dies else "victim-ends-normally(exit after completion)")
        if dies:
            if td.get(vname, (0, 0, 0, 0))[3] != 1:
                chk.violation(sig0 or "not-one-exception", "dying test %s reported with %s exceptions (credit %s)" % (
                    vname, td.get(vname, (None,) * 4)[3], td.get(vname)), rp())
            elif td[vname][:2] != own[vname][:2]:
                chk.violation(sig0 or "delivered-not-counted", "dying test %s: delivered results %s but credited %s" % (
                    vname, own[vname][:2], td[vname][:2]), rp())
            if run.exit == 0:
                chk.violation(sig0 or "verdict-success", "a test died but the verdict is success", rp())
        ref = refs.get(L.node_sexp(rc[0]), {})
        for name, delta in td.items():
            if name == vname:
                continue
            ncs = sorted(tcs.get(name, set()))
            nsig = ncs[0] if ncs else None
            if delta != own[name]:
                chk.violation(nsig or "neighbour-own", "test %s credited %s, its own results are %s (test %s died)" % (name, delta, own[name], vname), rp())
            if name in ref and ref[name] != delta:
                chk.violation(nsig or "neighbour-ref", "test %s credited %s but %s when the dying test %s is absent" % (name, delta, ref[name], vname), rp())
        missing = [n for n in ref if n not in td]
        if missing:
            chk.violation(sig0 or "neighbour-not-run", "tests %s did not run" % missing, rp())
    return chk.finish()


# ---------------------------------------------------------------------------------------
# C04: order independence in forking mode
# ---------------------------------------------------------------------------------------
def shape_str(n):
    """a suite tree in one line: s0[t0 s1[t1 t2] t3]"""
    if isinstance(n, L.Test):
        return n.name
    return "%s[%s]" % (n.name, " ".join(shape_str(c) for c in n.children))


def check_C04(chk):
    import copy
    drv = setup(chk, ["Properties_C04.v"])
    nsets = 6 if chk.tier == "quick" else 120
    cases, groups = [], []
    kinds = [("pass", 3), ("fail", 2), ("skiptest", 1), ("signal", 1), ("exit", 1), ("mixed", 4), ("xensure", 1)]
    for g in range(nsets):
        n = chk.rng.choice([3, 4, 5])
        tests = [gen_c.gen_test(chk.rng, i, kinds, fixtures=True, fw_acts=True, poke=True) for i in range(n)]
        for t in tests:       # make the tests sensitive to leaked state
            if not t.skip and chk.rng.random() < 0.7:
                t.body.append(chk.rng.choice([("figscheck", 7), ("call",), ("peek", 0), ("figscheck", 8), ("setparam",), ("badparam",)]))
        perms = list(itertools.permutations(range(n)))
        chk.rng.shuffle(perms)
        perms = perms[:(4 if chk.tier == "quick" else 24)]
        variants = [list(p) for p in perms]
        for _ in range(2 if chk.tier == "quick" else 8):        # subsets
            k = chk.rng.randrange(1, n + 1)
            variants.append(chk.rng.sample(range(n), k))
        if g < 2:
            # tests that end in different abnormal ways next to each other: what is reported for one (its counts and
            # the message about its end) may not depend on how an earlier one ended
            ways = [[("c", 1), ("die", "sig", 15)], [("c", 1), ("die", "exit", 3)], [("die", "sig", 11)], [("c", 0), ("die", "_exit", 0)], [("c", 1)]]
            if g == 1:
                ways = [[("die", "sig", 9)], [("die", "exit", 0)], [("c", 1), ("c", 0)], [("die", "sig", 6)], [("die", "exit", 1)]]
            n = len(ways)
            tests = [L.Test(i, body=list(w)) for i, w in enumerate(ways)]
            variants = [list(range(n)), list(reversed(range(n))), [1, 0, 3, 2, 4], [3, 1, 4, 0, 2]] + [[i] for i in range(n)]
        for order in variants:
            root = L.Suite(0)
            sub = None
            for j, i in enumerate(order):
                t = copy.deepcopy(tests[i])
                root.children.append(t)
            rep = chk.rng.choice(["text", "cute", "xml"])
            cases.append((root, rep, "forked"))
            groups.append(g)
        # the same tests in suites of different shape: some of them in a sub-suite (which runs before the own
        # tests of the enclosing suite, whatever the registration order), at the front, in the middle, at the end,
        # in two sub-suites; under every reporter that says something about a single test, so that what is said
        # about a test after a sub-suite that ended with a failure can be compared with what is said when it is alone
        if g % 2 == 1 or g < 2 or chk.tier == "thorough":
            n = len(tests)
            flat = list(range(n))
            shapes = [None, (0, 1), (n - 1, n), (chk.rng.randrange(0, n - 1), n) if n > 1 else (0, 1), "two"]
            for rep in ("cute", "xml", "text"):
                for shp in shapes:
                    root = L.Suite(0)
                    kids = [copy.deepcopy(tests[i]) for i in flat]
                    if shp is None:
                        root.children = kids
                    elif shp == "two":
                        h = max(1, n // 2)
                        root.children = [L.Suite(1, children=kids[:h])] + ([L.Suite(2, children=kids[h:n - 1])] if n - 1 > h else []) + kids[max(h, n - 1):]
                    else:
                        a, b = shp
                        root.children = kids[:a] + [L.Suite(1, children=kids[a:b])] + kids[b:]
                    cases.append((root, rep, "forked"))
                    groups.append(g)
    # fixed: a passing, a failing and a dying test, alone, flat and with each of them ending a sub-suite that runs
    # before the others (what a reporter remembers from the end of a sub-suite meets the suite's own first test)
    T, S = L.Test, L.Suite
    mk3 = lambda: [T(0, body=[("c", 1)]), T(1, body=[("c", 1), ("c", 0)]), T(2, body=[("c", 1), ("die", "sig", 11)]), T(3, body=[("c", 1), ("c", 1)])]
    for rep in ("cute", "xml", "text"):
        for shp in range(9):
            a, b, d, e = mk3()
            kids = {0: [a, b, d, e], 1: [S(1, children=[a, b]), d, e], 2: [S(1, children=[b]), a, e, d], 3: [S(1, children=[d]), a, b, e],
                    4: [a, S(1, children=[e, b]), d], 5: [S(1, children=[a]), S(2, children=[b]), e, d], 6: [a], 7: [e, a], 8: [S(1, children=[S(2, children=[d])]), e, a, b]}[shp]
            cases.append((S(0, children=kids), rep, "forked"))
            groups.append(nsets)
    runs, mrs = run_cases(drv, cases)
    correspondence(chk, cases, runs, mrs)
    seen = {}
    for (root, rep, mode), g, run, mr in zip(cases, groups, runs, mrs):
        if run.timeout:
            chk.violation("nontermination", "run did not terminate", replay_of(root, rep, mode))
            continue
        cs = corners(root, mode)
        sig0 = sorted(cs)[0] if cs else None
        order = shape_str(root)
        for name, delta in L.log_tdone(run):
            key = (g, name)
            if delta != mr.own[name]:
                chk.violation(sig0 or "depends-on-others", "test %s credited %s in registration order %s; alone it yields %s" % (
                    name, delta, order, mr.own[name]), replay_of(root, rep, mode, {"stdout": run.stdout[-2000:]}))
            if key in seen and seen[key][0] != delta:
                chk.violation(sig0 or "order-dependent", "test %s credited %s in order %s but %s in order %s" % (
                    name, delta, order, seen[key][0], seen[key][1]), replay_of(root, rep, mode, {"stdout": run.stdout[-2000:]}))
            seen.setdefault(key, (delta, order))
        # what the reporter's own output says about each test must not depend on the others either
        native = {}
        try:
            if rep == "xml":
                for fn, x in L.parse_xml_files(run.files).items():
                    for nm, cls, nf, ne, ns in x["cases"]:
                        native[nm] = ("xml testcase: failures, errors, skipped", (nf, ne, ns))
            elif rep == "cute":
                pc = L.parse_cute(run.stdout)
                for nm in [t.name for s_, t in root.tests()]:
                    native[nm] = ("cute lines: #failure, #success, #error", (pc["failures"].count(nm), len(pc["status"].get(nm, [])), pc["errors"].count(nm)))
        except Exception:
            native = {}
        for name, (what, val) in native.items():
            key = (g, name, rep)
            if key in seen and seen[key][0] != val and not cs:
                chk.violation("report-order-dependent", "test %s: %s = %s in registration order %s but %s in order %s" % (
                    name, what, val, order, seen[key][0], seen[key][1]), replay_of(root, rep, mode, {"stdout": run.stdout[-2000:]}))
            seen.setdefault(key, (val, order))
        for name, msg in L.log_tmsg(run):
            key = (g, name, "msg")
            if key in seen and seen[key][0] != msg:
                chk.violation(sig0 or "end-message-order-dependent", "test %s: the runner reports its end as %r in registration order %s but as %r in order %s" % (
                    name, msg, order, seen[key][0], seen[key][1]), replay_of(root, rep, mode, {"stdout": run.stdout[-2000:]}))
            seen.setdefault(key, (msg, order))
    # one fork() of the run fails: whatever the runner does then (it aborts the run), no test that is
    # still reported may see what another test did to the program's memory
    build = vlib.build_repo("hooks")
    shim = vlib.build_driver("faultshim", build, shared=True, libs=("-ldl",))
    T = L.Test
    for order in ([0, 1, 2], [2, 0, 1], [1, 2, 0]):
        tests = [T(0, body=[("poke", 7), ("c", 1)]), T(1, body=[("peek", 0), ("figscheck", 8)]), T(2, body=[("figs", 3), ("mode", "loose"), ("poke", 9)])]
        root = L.Suite(0, children=[tests[i] for i in order])
        mr = L.ModelResult(vlib.run_model("runner", [L.model_case(root, "text", "forked")])[0])
        for k in (1, 2, 3):
            run = L.run_impl(drv, root, "text", "forked", env_extra={"LD_PRELOAD": shim, "VERIF_FAULT": "fork:%d" % k})
            chk.case(("fork-fault", tuple(order), k))
            chk.count("fork-fault")
            rp = replay_of(root, "text", "forked", {"fault": "fork:%d" % k, "exit": run.exit, "stdout": run.stdout[-1200:],
                                                     "how": "VERIF_FAULT=fork:%d LD_PRELOAD=_work/bin-hooks/faultshim.so _work/bin-hooks/scn_driver <scenario>" % k})
            for name, delta in L.log_tdone(run):
                if delta != mr.own[name]:
                    chk.violation("depends-on-others-after-fork-failure", "fork() number %d failed; test %s is then credited %s, alone it yields %s (registration order %s)" % (
                        k, name, delta, mr.own[name], [t.name for s_, t in root.tests()]), rp)
    return chk.finish()


# ---------------------------------------------------------------------------------------
# C13: forked, in-process and single-test execution agree
# ---------------------------------------------------------------------------------------
def messages_by_test(run):
    t = L.parse_text(run.stdout)
    res = {}
    for crumb, line, msg in t["failures"]:
        res.setdefault(crumb[-1], []).append((line, msg))
    return res


def check_C13(chk):
    drv = setup(chk, ["Properties_C13.v"])
    nseq = 8 if chk.tier == "quick" else 150
    kinds = [("pass", 3), ("fail", 3), ("skiptest", 1), ("xensure", 1), ("mixed", 4), ("empty", 1)]
    leftovers = [1, 3, 4, 5, 9] if chk.tier == "quick" else [1, 2, 3, 4, 5, 7, 8, 9, 16, 17, 101]
    quiet_modes = [("loose", "learning"), ("learning", "loose")]
    for g in range(nseq + len(leftovers) + len(quiet_modes)):
        root = gen_c.gen_tree(chk.rng, max_depth=chk.rng.choice([0, 1, 2]), max_tests=6, kinds=kinds, fw_acts=True, poke=False)
        probe = g % 2 == 0
        if g >= nseq + len(leftovers):
            # a test switches the mock mode and does nothing else with mocks (no expectation, no mocked call): the
            # next test calls a function nobody expected and must see strict mocks in every mode
            m1, m2 = quiet_modes[g - nseq - len(leftovers)]
            root = L.Suite(0, children=[L.Test(0, body=[("c", 1), ("mode", m1)]),
                                        L.Test(1, body=[("call",), ("c", 1)]),
                                        L.Suite(1, children=[L.Test(2, body=[("mode", m2)]), L.Test(3, body=[("c", 1), ("calle",)])]),
                                        L.Test(4, body=[("call",)])])
            probe = False
        elif g >= nseq:
            # a test ends with n expectations still pending for a function; the next test calls that
            # function without declaring anything: strict mocks must report it in every mode
            n = leftovers[g - nseq]
            root = L.Suite(0, children=[L.Test(0, body=[("c", 1)] + [("expect",)] * n),
                                        L.Test(1, body=[("calle",), ("c", 1)]),
                                        L.Test(2, body=[("expect",)] * (n // 2) + [("c", 1)]),
                                        L.Test(3, body=[("c", 1), ("calle",)])])
            probe = False
        if g in (1, 3):
            # one mocked function name reached through two call sites with different mock(...) argument lists, the
            # shorter one first: whatever the engine remembers about a mocked function may not outlive the test
            two = [[("twoa",), ("c", 1)], [("twob",)], [("twoa",)], [("twob",), ("twoa",)]] if g == 1 else [[("twob",)], [("twoa",), ("twob",)], [("c", 1)], [("twoa",)]]
            root = L.Suite(0, children=[L.Test(0, body=two[0]), L.Test(1, body=two[1]),
                                        L.Suite(1, children=[L.Test(2, body=two[2]), L.Test(3, body=two[3])])])
            probe = False
        if g % 4 == 0:
            # several sub-suites with tests, a nested one, and own tests: state left behind by the
            # last test of one suite meets the first test of the next
            mk = lambda i: gen_c.gen_test(chk.rng, i, kinds=[("pass", 2), ("fail", 2), ("mixed", 2)], fixtures=True)
            root = L.Suite(0, children=[L.Suite(1, children=[mk(0), mk(1)]),
                                        L.Suite(2, children=[mk(2), L.Suite(3, children=[mk(3)])]), mk(4), mk(5)])
        for s, t in root.tests():
            if not t.skip and g < nseq:
                r = chk.rng.random()
                if probe:
                    # every test first looks at the framework state, then disturbs it
                    t.body = [chk.rng.choice([("figscheck", 7), ("figscheck", 8)]), ("call",)] + t.body + \
                             [chk.rng.choice([("figs", 3), ("figs", 12)]), ("mode", chk.rng.choice(["loose", "learning"]))] + \
                             ([("expect",)] if chk.rng.random() < 0.5 else [])
                elif r < 0.5:
                    t.body.append(chk.rng.choice([("figscheck", 7), ("call",), ("figscheck", 8), ("mode", "loose"), ("figs", 3), ("badparam",)]))
                if r < 0.25:
                    t.body.insert(0, ("raw", "expect mocked_c"))     # a successfully mocked call of the function
                    t.body.insert(1, ("raw", "call mocked_c"))       # that other tests call unexpectedly
        tests = [t for s, t in root.tests()]
        cases = [(root, "text", "forked"), (root, "text", "inproc")]
        singles = tests if chk.tier == "thorough" else chk.rng.sample(tests, min(2, len(tests)))
        for t in singles:
            cases.append((root, "text", ("single", t.tid)))
        for extra in (["cute", "xml"] if g % 3 == 0 else []):
            cases += [(root, extra, "forked"), (root, extra, "inproc")]
        runs, mrs = run_cases(drv, cases)
        correspondence(chk, cases, runs, mrs)
        base = None
        cute_base = None
        for (r_, rep, mode), run, mr in zip(cases, runs, mrs):
            if run.timeout:
                chk.violation("nontermination", "run did not terminate", replay_of(root, rep, mode))
                continue
            chk.count("premises:" + ("inside" if mr.in_premises else "outside"))
            if rep == "cute" and mr.in_premises:
                # the per-test lines of the CUTE reporter (#failure once per failing test, #success) are messages too
                pc = L.parse_cute(run.stdout)
                lines_ = (sorted(pc["failures"]), sorted(pc["status"]), sorted(pc["errors"]))
                if cute_base is None:
                    cute_base = (mode, lines_)
                elif cute_base[1] != lines_:
                    chk.violation("messages-differ-cute", "CUTE reporter: #failure/#success/#error lines %s in mode %s but %s in mode %s" % (
                        cute_base[1], cute_base[0], lines_, mode), replay_of(root, rep, mode, {"stdout": run.stdout[-2500:]}))
            td = dict(L.log_tdone(run))
            msgs = messages_by_test(run) if rep == "text" else None
            for name, delta in td.items():
                if delta != mr.own[name]:
                    chk.violation("mode-%s" % (mode if isinstance(mode, str) else "single"),
                                  "test %s credited %s in mode %s; its own results are %s" % (name, delta, mode, mr.own[name]),
                                  replay_of(root, rep, mode, {"stdout": run.stdout[-2500:]}))
            if rep == "text":
                if base is None:
                    base = (mode, td, msgs)
                else:
                    for name, delta in td.items():
                        if base[1].get(name) != delta:
                            chk.violation("modes-differ", "test %s: %s in mode %s, %s in mode %s" % (name, base[1].get(name), base[0], delta, mode),
                                          replay_of(root, rep, mode, {"stdout": run.stdout[-2500:]}))
                        if base[2].get(name, []) != msgs.get(name, []):
                            chk.violation("messages-differ", "test %s: messages %s in mode %s but %s in mode %s" % (
                                name, base[2].get(name, []), base[0], msgs.get(name, []), mode),
                                replay_of(root, rep, mode, {"stdout": run.stdout[-2500:]}))
    # a run in the runner's own process, then a forked run with the same reporter object: what the first
    # run's tests did to the framework state (figures, mock mode, expectations) must not reach the second
    T = L.Test
    for k, figs in enumerate([3, 12, 2] if chk.tier == "quick" else [1, 2, 3, 5, 7, 9, 12, 15]):
        # the disturbing test runs last, so what it leaves behind is what the runner's process holds
        # when the second run starts
        root = L.Suite(0, children=[T(0, body=[("figscheck", 7), ("figscheck", 8), ("calle",)]),
                                    T(1, body=[("c", 1), ("figscheck", figs), ("figscheck", 7)]),
                                    T(2, body=[("figscheck", 7), ("mode", "loose"), ("expect",), ("expect",), ("figs", figs)])])
        for rep in (["text", "cute"] if k == 0 else ["text"]):
            run = L.run_impl(drv, root, rep, "inproc-forked")
            m = vlib.run_model("runner", ["(twice %s inproc-forked 4096 %s)" % (rep, L.node_sexp(root))])[0]
            chk.case(("inproc-forked", figs, rep))
            chk.count("mode:inproc-then-forked")
            chk.cov["disagreements_checked"] += 1
            rp = replay_of(root, rep, "forked", {"scenario": L.scn_text(root, rep, "inproc-forked", "events.log"), "stdout": run.stdout[-1500:]})
            td = L.log_tdone(run)
            second = td[len(td) // 2:]
            want = [("t%s" % x.split()[0], tuple(map(int, x.split()[1:5]))) for x in m.split("|")[1].split(";") if x][len(td) // 2:] if "|" in m else None
            if want is not None and second != want:
                chk.disagreement("in-process run then forked run: second run credits %s, model %s" % (second, want), rp)
            mr = L.ModelResult(vlib.run_model("runner", [L.model_case(root, rep, "forked")])[0])
            for name, delta in second:
                if delta != mr.own[name]:
                    chk.violation("second-run-affected", "after an in-process run that set %d significant figures, the forked run credits %s %s; its own results are %s" % (
                        figs, name, delta, mr.own[name]), rp)
    return chk.finish()


# ---------------------------------------------------------------------------------------
# C08: setup, body, teardown, tally - once each, in order, in one process
# ---------------------------------------------------------------------------------------
PHASE_KINDS = {"ssetup": "ssetup", "setup": "setup", "body": "body", "teardown": "teardown", "steardown": "steardown"}


def test_events(run, root):
    """{test: [(pid, kind)]} from the event log: fixture/body entries and the completed tally"""
    names = {t.name for s, t in root.tests()}
    res = {}
    for pid, k, a in run.log:
        if k in ("setup", "body", "teardown") and a[0] in names:
            res.setdefault(a[0], []).append((pid, k))
        elif k in ("ssetup", "steardown") and len(a) > 1 and a[1] in names:
            res.setdefault(a[1], []).append((pid, k))
        elif k == "after_tally" and a[0] in names:
            res.setdefault(a[0], []).append((pid, "tally"))
    return res


def parent_events(run, root, parent_pid):
    """suite-level fixtures around sub-suites and suite ends, in the runner's process"""
    snames = {s.name for s in root.suites()}
    res = []
    for pid, k, a in run.log:
        if k in ("ssetup", "steardown") and len(a) > 1 and a[1] in snames:
            res.append((pid == parent_pid, "fix", a[0], 0 if k == "ssetup" else 1))
        elif k == "sdone":
            res.append((pid == parent_pid, "sdone", a[0], None))
    return res


def check_C08(chk):
    drv = setup(chk, ["Properties_C08.v"])
    n = 10 if chk.tier == "quick" else 200
    kinds = [("pass", 3), ("fail", 3), ("skiptest", 1), ("xensure", 2), ("signal", 1), ("exit", 1), ("mixed", 2), ("empty", 1)]
    cases = []
    for i in range(n):
        root = gen_c.gen_tree(chk.rng, max_depth=3, max_tests=8, kinds=kinds, fw_acts=(i % 4 == 0))
        for s in root.suites():      # more suite-level fixtures than the default
            if chk.rng.random() < 0.3:
                s.has_setup = True
            if chk.rng.random() < 0.3:
                s.has_teardown = True
        # dying in fixtures too
        for s, t in root.tests():
            a_s, a_t = L.applicable(s, t)
            if a_t and chk.rng.random() < 0.1:
                t.teardown = [("c", 1), ("die", "sig", 11)]
            if a_s and chk.rng.random() < 0.1:
                t.setup = [("die", "exit", 3)]
        rep = chk.rng.choice(L.REPORTERS)
        cases.append((root, rep, "forked"))
        # in-process runs end at the first death: use them on trees without deaths
        if not any(any(a[0] == "die" for a in t.setup + t.body + t.teardown) for s, t in root.tests()):
            cases.append((root, rep, "inproc"))
        ts = [t for s, t in root.tests()]
        if ts:
            cases.append((root, rep, ("single", chk.rng.choice(ts).tid)))
    # one test registered in several sub-suites of a suite that has fixtures of its own, selected by
    # name: the suite's setup and teardown bracket every sub-suite that is entered
    for nsub in ((2, 3) if chk.tier == "quick" else (2, 3, 4)):
        for deep in (False, True):
            shared = L.Test(7, body=[("c", 1)], ctx_setup=True)
            subs = []
            for i in range(nsub):
                kids = [L.Test(10 + i, body=[("c", 1)]), shared]
                sub = L.Suite(1 + i, has_setup=(i % 2 == 0), children=kids)
                subs.append(L.Suite(20 + i, children=[sub]) if deep else sub)
            subs.insert(1, L.Suite(9, children=[L.Test(30, body=[("c", 1)])]))     # a sub-suite without the name
            root = L.Suite(0, has_setup=True, has_teardown=True, children=subs + [L.Test(31, body=[("c", 1)])])
            rep = chk.rng.choice(L.REPORTERS)
            cases.append((root, rep, ("single", 7)))
            cases.append((root, rep, "forked"))
    cases += chk.code_cases
    runs, mrs = run_cases(drv, cases)
    correspondence(chk, cases, runs, mrs)
    for (root, rep, mode), run, mr in zip(cases, runs, mrs):
        rp = lambda: replay_of(root, rep, mode, {"log": [list(map(str, x)) for x in run.log][:200]})
        if run.timeout:
            chk.violation("nontermination", "run did not terminate", rp())
            continue
        verdict, ppid = L.log_verdict(run)
        if ppid is None:
            # the runner's own process ended (in-process death); take the pid of the first event
            ppid = run.log[0][0] if run.log else None
        ev = test_events(run, root)
        executed = set(executed_tests(root, mode))
        tests = {t.name: (s, t) for s, t in root.tests()}
        names = [t.name for s, t in root.tests()]
        died_inproc = False
        for name, (s, t) in tests.items():
            if names.count(name) > 1:
                continue        # registered several times: judged by the whole event sequence below
            got = ev.get(name, [])
            if name not in executed or t.skip:
                if got:
                    chk.violation("ran-code-of-unexecuted", "%s test %s ran %s" % ("xEnsure" if t.skip else "unselected", name, got), rp())
                continue
            if mode != "forked" and died_inproc:
                continue
            exp = mr.traces[name]
            kinds_got = [k for pid, k in got]
            if kinds_got != exp:
                chk.violation("phase-order", "test %s ran %s; expected %s (suite setup/teardown: %s/%s, context: %s/%s)" % (
                    name, kinds_got, exp, s.has_setup, s.has_teardown, t.ctx_setup, t.ctx_teardown), rp())
            pids = {pid for pid, k in got}
            if len(pids) > 1:
                chk.violation("several-processes", "test %s: phases ran in processes %s" % (name, sorted(pids)), rp())
            if pids and mode == "forked" and ppid in pids:
                chk.violation("ran-in-runner", "forked test %s ran in the runner's own process" % name, rp())
            if pids and mode != "forked" and pids != {ppid}:
                chk.violation("not-in-runner", "in-process test %s ran in another process" % name, rp())
            if mode != "forked" and mr.own[name][3] > 0:
                died_inproc = True
            # the tally is also visible through its effect: pending expectations become failures
            credited = dict(L.log_tdone(run)).get(name)
            if credited is not None and credited != mr.own[name] and not corners(root, mode):
                chk.violation("tally-effect", "test %s credited %s; with the mock tally after its teardown it yields %s" % (
                    name, credited, mr.own[name]), rp())
        # suite fixtures bracket each sub-suite once, in the runner's process
        if mr.kind == "fin":
            pe = parent_events(run, root, ppid)
            exp = []
            for e in mr.events:
                if e[0] == "fix":
                    exp.append((True, "fix", "s" + e[1], int(e[2])))
                elif e[0] == "sdone":
                    exp.append((True, "sdone", "s" + e[1], None))
            if pe != exp:
                chk.violation("suite-fixtures", "suite fixture / suite end sequence %s; expected %s" % (pe, exp), rp())
    # ---- a test stopped by its time limit is a dying test: what ran before the limit ran out is a prefix of the
    # sequence, nothing runs after it (no teardown of a body that was cut short, no teardown entered twice, no tally)
    import check_timeout
    status = check_timeout.timeout_status()
    timed = []
    for k, (where, fixt, arm, mode) in enumerate((("body", "ctx", "env", "forked"), ("teardown", "ctx", "env", "forked"), ("body", "suite", "die_in", "forked"),
                                                  ("teardown", "suite", "env", "forked"), ("body", "ctx", "die_in", "inproc"), ("setup", "ctx", "env", "forked"))):
        slow = ("raw", "sleep 3000" if k % 2 == 0 else "spin")
        body = [("c", 1)] + ([slow] if where == "body" else [])
        if arm == "die_in":
            body.insert(0, ("raw", "die_in 1"))
        t = L.Test(2, body=body, ctx_setup=(fixt == "ctx"), ctx_teardown=(fixt == "ctx"),
                   setup=[slow] if where == "setup" else [], teardown=[slow] if where == "teardown" else [("c", 1)])
        # model steps: AReset, [Mark setup], Mark body, the check, [Mark teardown, its check]
        t.model_kill = ({"setup": 2, "body": 4, "teardown": 5}[where], "exit", status)
        t.model_body = [("c", 1)]
        suite = L.Suite(0, has_setup=(fixt == "suite"), has_teardown=(fixt == "suite"),
                        children=[L.Test(1, body=[("c", 1)], ctx_teardown=True), t, L.Test(3, body=[("c", 1)], ctx_setup=True)])
        timed.append((suite, "text", mode, {"CGREEN_PER_TEST_TIMEOUT": "1"} if arm == "env" else {}, t, where))
    lines = []
    for root, rep, mode, env, t, where in timed:
        real = (t.body, t.setup, t.teardown)
        t.body = t.model_body
        t.setup = [a for a in t.setup if a[0] != "raw"]
        t.teardown = [a for a in t.teardown if a[0] != "raw"]
        lines.append(L.model_case(root, rep, mode))
        t.body, t.setup, t.teardown = real
    tmrs = [L.ModelResult(l) for l in vlib.run_model("runner", lines)]
    with ThreadPoolExecutor(vlib.NPROC) as ex:
        truns = list(ex.map(lambda c: L.run_impl(drv, c[0], c[1], c[2], timeout=30, env_extra=c[3]), timed))
    for (root, rep, mode, env, t, where), run, mr in zip(timed, truns, tmrs):
        chk.case(("timed", where, mode, str(env), L.node_sexp(root)))
        chk.count("timed:limit-runs-out-in-" + where)
        rp = replay_of(root, rep, mode, {"env": env, "exit": run.exit, "log": [list(map(str, x)) for x in run.log][:120]})
        if run.timeout:
            chk.violation("nontermination", "run with a time limit did not terminate", rp)
            continue
        ev = test_events(run, root)
        for name in ([t.name] if mode != "forked" else [tt.name for s_, tt in root.tests()]):
            got = [k for pid, k in ev.get(name, [])]
            exp = mr.traces.get(name, [])
            if got != exp:
                chk.violation("phase-order-timed", "test %s (its time limit runs out in its %s, %s fixtures) ran %s; expected %s" % (
                    name, where, "suite-level" if root.has_setup else "context", got, exp), rp)
    return chk.finish()


# ---------------------------------------------------------------------------------------
# C18: channel capacity
# ---------------------------------------------------------------------------------------
def channel_capacity(build):
    """records the result pipe holds: pipe buffer size / sizeof(CgreenMessage), measured with
    the repository's own definitions"""
    import subprocess, tempfile
    src = r'''
#define _GNU_SOURCE
#include "%s/src/messaging.c"
#include <fcntl.h>
int main(void) { int p[2]; if (pipe(p)) return 1;
  printf("%%d %%d\n", (int)fcntl(p[1], F_GETPIPE_SZ), (int)sizeof(CgreenMessage)); return 0; }
''' % vlib.REPO
    d = vlib.private_dir("cap")
    try:
        open(os.path.join(d, "cap.c"), "w").write(src)
        p = vlib.sh(["gcc", "-w", "-o", "cap", "cap.c"] + build["inc"] + ["-L" + build["libdir"], "-lcgreen"], cwd=d)
        if p.returncode != 0:
            raise vlib.Infra("capacity probe failed to build: " + p.stdout[-800:])
        env = dict(os.environ, LD_LIBRARY_PATH=build["libdir"])
        out = subprocess.run([os.path.join(d, "cap")], stdout=subprocess.PIPE, text=True, env=env).stdout.split()
        return int(out[0]) // int(out[1]), int(out[0]), int(out[1])
    finally:
        import shutil
        shutil.rmtree(d, ignore_errors=True)


def check_C18(chk):
    drv = setup(chk, ["Properties_C18.v"])
    build = vlib.build_repo("hooks")
    cap, psz, msz = channel_capacity(build)
    chk.cov["channel"] = {"capacity_records": cap, "pipe_bytes": psz, "record_bytes": msz}
    ks = [0, 1, cap - 2, cap - 1, cap, cap + 1, 2 * cap, 3 * cap + 7]
    if chk.tier == "quick":
        combos = [(k, res, "middle", "forked", res == 1 and i % 2 == 0, i % 4 < 2) for i, k in enumerate(ks) for res in (1, 0)]
        combos += [(cap, 1, "middle", "forked", True, True), (cap - 1, 1, "last", "forked", True, True),
                   (cap - 1, 1, "first", "forked", False, False), (cap, 0, "last", "forked", False, True),
                   (cap - 1, 1, "middle", "inproc", True, False), (cap, 1, "middle", "inproc", True, True),
                   (cap - 2, 0, "middle", "inproc", False, False)]
    else:
        combos = [(k, res, pos, mode, ap, nested) for k in ks for res in (1, 0) for pos in ("first", "middle", "last")
                  for mode in ("forked", "inproc") for ap in (True, False) for nested in (True, False)]
    # a second test that fills the channel in the same run (its first three checks fail): matters where the first
    # one does not end the run
    combos = [c + (0,) for c in combos]
    seconds = [(cap, "inproc"), (cap + 5, "inproc"), (2 * cap, "forked"), (cap - 1, "inproc")]
    if chk.tier == "thorough":
        seconds += [(cap, "forked"), (3 * cap, "inproc"), (cap + 1, "inproc"), (cap - 2, "forked")]
    for i, (k2, mode) in enumerate(seconds):
        combos.append(((cap + 3) if i % 2 == 0 else cap, 1, ("first", "middle")[i % 2], mode, True, i % 2 == 0, k2))
    cases, meta = [], []
    for k, res, pos, mode, allpass, nested, k2 in combos:
        big = L.Test(1, body=[("c", res)] * k)
        before = L.Test(0, body=[("c", 1), ("c", 1), ("c", 1 if allpass else 0)])
        after = L.Test(2, body=[("c", 1)] * 5)
        order = {"first": [big, before, after], "middle": [before, big, after], "last": [before, after, big]}[pos]
        if k2:
            order = order + [L.Test(3, body=[("c", 0)] * 3 + [("c", 1)] * (k2 - 3))]
        if nested:
            root = L.Suite(0, children=[L.Suite(1, children=order)])
        else:
            root = L.Suite(0, children=order)
        cases.append((root, "text", mode))
        meta.append((k, res, pos, allpass, k2))
    lines = [L.model_case(r, rep, m, cap) for r, rep, m in cases]
    mrs = [L.ModelResult(l) for l in vlib.run_model("runner", lines)]
    with ThreadPoolExecutor(vlib.NPROC) as ex:
        runs = list(ex.map(lambda c: L.run_impl(drv, c[0], c[1], c[2], timeout=120), cases))
    for (root, rep, mode), (k, res, pos, allpass, k2), run, mr in zip(cases, meta, runs, mrs):
        account(chk, root, rep, mode)
        if k2:
            chk.count("second-big-test:%s" % ("cap%+d" % (k2 - cap) if abs(k2 - cap) <= 5 else str(k2)))
        chk.count("checks:%s" % ("cap%+d" % (k - cap) if abs(k - cap) <= 2 else str(k)))
        overflow = k + 1 > cap or k2 + 1 > cap
        dis = cmp_c.model_vs_impl(root, rep, mode, run, mr, overflow=overflow)
        chk.cov["disagreements_checked"] += 1
        rp = lambda: {"checks_in_big_test": k, "checks_in_second_big_test_t3_first_three_fail": k2, "result_of_each": res, "position": pos, "mode": mode, "capacity": cap,
                      "exit": run.exit, "tdone": L.log_tdone(run), "stdout_tail": run.stdout[-1500:],
                      "how": "scenario: tests t0 (pass,pass,fail), t1 (k checks), t2 (5 passes) in the given order; run harness/scn_driver"}
        if dis:
            chk.disagreement("; ".join(dis)[:1200], rp())
        chk.sample({"k": k, "result": res, "position": pos, "mode": mode, "exit": run.exit, "credits": L.log_tdone(run)}, limit=5)
        if run.timeout:
            chk.violation("nontermination", "run with %d checks did not terminate" % k, rp())
            continue
        if mode == "inproc" and overflow and run.exit != 0:
            # the runner's own process is the one that overflows: the whole run ends there with failure status,
            # which is the second alternative of the property (exception, failing verdict)
            continue
        td = dict(L.log_tdone(run))
        big = td.get("t1")
        if big is None:
            chk.violation("big-test-missing", "the test with %d checks was not reported" % k, rp())
            continue
        counted = big[0] + big[1]
        if big[3] == 0:
            if (big[0], big[1]) != ((k, 0) if res else (0, k)):
                chk.violation("lost-or-duplicated", "%d checks executed, %s counted, no exception" % (k, big[:2]), rp())
        else:
            if run.exit == 0:
                chk.violation("exception-but-success", "the test is an exception but the verdict is success", rp())
            if counted > k or (res and big[1]) or (not res and big[0]):
                chk.violation("miscounted", "%d checks executed but %s counted" % (k, big[:2]), rp())
            if not k + 1 > cap:
                chk.violation("spurious-exception", "%d checks (+ marker) fit the channel of %d records but the test is an exception" % (k, cap), rp())
        exp0 = (3, 0, 0, 0) if allpass else (2, 1, 0, 0)
        if td.get("t0") not in (None, exp0) or td.get("t2") not in (None, (5, 0, 0, 0)):
            chk.violation("misplaced", "neighbours credited %s / %s instead of %s / (5,0,0,0)" % (td.get("t0"), td.get("t2"), exp0), rp())
        if "t0" not in td or "t2" not in td:
            chk.violation("neighbour-missing", "a neighbour of the big test was not reported", rp())
        second_bad = False
        if k2:
            b2 = td.get("t3")
            if b2 is None:
                chk.violation("big-test-missing", "the second big test (%d checks) was not reported" % k2, rp())
                continue
            if b2[3] == 0 and (b2[0], b2[1]) != (k2 - 3, 3):
                chk.violation("lost-or-duplicated", "second big test: %d checks executed (3 failing), %s counted, no exception" % (k2, b2[:2]), rp())
            if b2[3] and (b2[0] > k2 - 3 or b2[1] > 3):
                chk.violation("miscounted", "second big test: %d checks executed (3 failing) but %s counted" % (k2, b2[:2]), rp())
            if b2[3] and k2 + 1 <= cap:
                chk.violation("spurious-exception", "second big test: %d checks (+ marker) fit the channel of %d records but the test is an exception" % (k2, cap), rp())
            second_bad = True       # three failing checks, or an exception
        bad = (not allpass) or big[1] > 0 or big[3] > 0 or (not res and k > 0) or second_bad
        if (run.exit != 0) != bad:
            chk.violation("verdict", "verdict %s but %s" % ("failure" if run.exit else "success",
                          "a check failed or the test is an exception" if bad else "nothing failed"), rp())
    return chk.finish()
