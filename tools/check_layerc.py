"""Checks C01 C02 C03 C04 C08 C13 C17 C18: the runner / result protocol / reporter layer."""
import itertools, os, sys
from concurrent.futures import ThreadPoolExecutor
import vlib, layerc as L, gen_c, cmp_c

TRUSTED_C = [
    "Coq 8.16.1 kernel (coqc, full .vo build; vm_compute used only for table checks and witnesses; no native_compute)",
    "tools/srcfacts.py + clang JSON AST: verdict expressions, reporter counter resets/folds, record enum are re-derived from source on every run",
    "extraction: ExtrOcamlBasic only (no Extract Constant); ocaml/util.ml, h_runner.ml, driver.ml glue",
    "correspondence harness: harness/scn_driver.c, tools/layerc.py, cmp_c.py, gen_c.py (differential testing; bounds how well Runner.v is known to match the code)",
    "modelled, not verified: fork/wait/pipe/signal semantics of the kernel (a record written before the writer dies stays readable; wait returns the child's status); stdio flushing",
]


def setup(chk, props):
    build = vlib.build_repo("hooks")
    drv = vlib.build_driver("scn_driver", build, libs=("-lcgreen", "-lxml2"))
    chk.prove(props)
    chk.cov["trusted_base"] = TRUSTED_C + ["axioms: see coverage.print_assumptions"]
    return drv


def run_cases(drv, cases, timeout=60, env_extra=None):
    """cases: list of (root, reporter, mode) -> (runs, model results)"""
    lines = [L.model_case(r, rep, m, cap) if False else L.model_case(r, rep, m) for r, rep, m in cases]
    mrs = [L.ModelResult(l) for l in vlib.run_model("runner", lines)]
    with ThreadPoolExecutor(vlib.NPROC) as ex:
        runs = list(ex.map(lambda c: L.run_impl(drv, c[0], c[1], c[2], timeout=timeout, env_extra=env_extra), cases))
    return runs, mrs


def replay_of(root, reporter, mode, extra=None):
    r = {"scenario": L.scn_text(root, reporter, mode, "events.log"), "model_case": L.model_case(root, reporter, mode),
         "reporter": reporter, "mode": str(mode),
         "how": "write scenario to a file and run _work/bin-hooks/scn_driver <file> (CGREEN_NO_FORK=1 for mode inproc)"}
    if extra:
        r.update(extra)
    return r


# ---------------------------------------------------------------------------------------
# classification of scenario corners that are known findings
# ---------------------------------------------------------------------------------------
def corners(root, mode):
    """signatures of the known-finding corners present in the scenario"""
    sigs = set()
    for s, t in root.tests():
        if t.skip:
            continue
        a_s, a_t = L.applicable(s, t)
        acts = (t.setup if a_s else []) + t.body + (t.teardown if a_t else [])
        died = False
        skipped = False
        for a in acts:
            if a[0] == "skip":
                skipped = True
            if a[0] == "die":
                died = True
                if skipped:
                    sigs.add("skip-then-die")
                if mode != "forked" and a[1] in ("exit", "_exit") and a[2] == 0:
                    sigs.add("inproc-exit0")
                break
        if t.kill and not died:
            point, nth, how = t.kill
            if point in ("after_completion", "at_stop") or (point == "after_write" and nth >= len(t.body)):
                if how[0] == "sig":
                    sigs.add("die-after-completion")
            elif skipped:
                sigs.add("skip-then-die")
            if mode != "forked" and how[0] != "sig" and how[1] == 0 and point not in ("after_completion", "at_stop"):
                sigs.add("inproc-exit0")
    return sigs


def any_bad(mr):
    return any(o[1] > 0 or o[3] > 0 for o in mr.own.values())


def nontrivial(root):
    return any((not t.skip) and any(a[0] != "c" or a[1] == 0 for a in t.body + t.setup + t.teardown) or t.kill
               for s, t in root.tests()) or sum(1 for _ in root.suites()) > 1


def executed_tests(root, mode):
    if mode in ("forked", "inproc"):
        return [t.name for s, t in root.tests()]
    return ["t%d" % mode[1]]


# ---------------------------------------------------------------------------------------
def gen_cases(chk, n_trees, modes=("forked", "inproc"), reporters=L.REPORTERS, **genopts):
    cases = []
    for i in range(n_trees):
        r = chk.rng.random()
        if r < 0.2:
            root = gen_c.gen_tree(chk.rng, all_good=True, **genopts)
            chk.count("tree:all-good")
        elif r < 0.45:
            root = gen_c.gen_tree(chk.rng, all_good=True, **genopts)
            gen_c.plant_one_bad(chk.rng, root)
            chk.count("tree:one-bad-late-or-deep")
        else:
            root = gen_c.gen_tree(chk.rng, fw_acts=(i % 3 == 0), **genopts)
            chk.count("tree:mixed")
        for rep in reporters:
            for m in modes:
                cases.append((root, rep, m))
    return cases


def corner_cases(reporters=("text", "cute", "xml"), modes=("forked",), which=("skip-then-die", "die-after-completion", "inproc-exit0")):
    """fixed scenarios for the corners listed in known_findings.txt (run first, every time)"""
    from layerc import Test, Suite
    cases = []
    if "skip-then-die" in which:
        for rep in reporters:
            for m in modes:
                root = Suite(0, children=[Test(0, body=[("c", 1)]), Test(1, body=[("skip",), ("die", "sig", 11)]), Test(2, body=[("c", 1)])])
                cases.append((root, rep, m))
    if "die-after-completion" in which:
        for rep in reporters:
            root = Suite(0, children=[Test(0, body=[("c", 1)], kill=("at_stop", 0, ("sig", 11))), Test(1, body=[("c", 1)])])
            cases.append((root, rep, "forked"))
    if "inproc-exit0" in which:
        root = Suite(0, children=[Test(0, body=[("c", 0), ("die", "exit", 0)]), Test(1, body=[("c", 1)])])
        cases.append((root, "text", "inproc"))
    return cases


def account(chk, root, rep, mode):
    chk.case((L.node_sexp(root), rep, str(mode)), nontrivial(root))
    chk.count("reporter:" + rep)
    chk.count("mode:" + (mode if isinstance(mode, str) else "single"))
    for s, t in root.tests():
        if t.skip:
            chk.count("test:xEnsure")
        elif t.kill:
            chk.count("test:killed-at-" + t.kill[0])
        elif any(a[0] == "die" for a in t.body):
            chk.count("test:dies-in-body")
        elif any(a[0] == "skip" for a in t.body):
            chk.count("test:skip_test()")
        elif any(a == ("c", 0) for a in t.body + t.setup + t.teardown):
            chk.count("test:failing")
        elif not t.body:
            chk.count("test:assertion-free")
        else:
            chk.count("test:passing")


def correspondence(chk, cases, runs, mrs):
    for (root, rep, mode), run, mr in zip(cases, runs, mrs):
        account(chk, root, rep, mode)
        dis = cmp_c.model_vs_impl(root, rep, mode, run, mr)
        chk.cov["disagreements_checked"] += 1
        if dis:
            chk.disagreement("; ".join(dis)[:1500], replay_of(root, rep, mode, {"stdout": run.stdout[-3000:]}))
        chk.sample({"tree": L.node_sexp(root), "reporter": rep, "mode": str(mode), "exit": run.exit,
                    "model": mr.kind + " " + str(mr.expected_exit())}, limit=4)


# ---------------------------------------------------------------------------------------
# C01
# ---------------------------------------------------------------------------------------
def check_C01(chk):
    drv = setup(chk, ["Properties_C01.v"])
    n = 12 if chk.tier == "quick" else 250
    cases = corner_cases() + gen_cases(chk, n)
    # single-test mode on a few trees
    for i in range(4 if chk.tier == "quick" else 60):
        root = gen_c.gen_tree(chk.rng, max_depth=2)
        ts = [t for s, t in root.tests()]
        if ts:
            t = chk.rng.choice(ts)
            cases.append((root, chk.rng.choice(L.REPORTERS), ("single", t.tid)))
    runs, mrs = run_cases(drv, cases)
    correspondence(chk, cases, runs, mrs)
    for (root, rep, mode), run, mr in zip(cases, runs, mrs):
        if run.timeout:
            chk.violation("nontermination", "run did not terminate", replay_of(root, rep, mode))
            continue
        cs = corners(root, mode)
        if isinstance(mode, tuple):
            # run_single_test: only the named test counts
            bad = mr.own["t%d" % mode[1]][1] > 0 or mr.own["t%d" % mode[1]][3] > 0
        elif mode == "inproc":
            # the run ends at the first test that dies: only the tests up to it were executed
            bad = False
            for name in mr.started():
                o = mr.own[name]
                if o[1] > 0 or o[3] > 0:
                    bad = True
                if o[3] > 0:
                    break
        else:
            bad = any_bad(mr)
        failed = run.exit != 0
        if failed != bad:
            sig = sorted(cs)[0] if cs else "verdict-%s-%s" % (rep, mode if isinstance(mode, str) else "single")
            chk.violation(sig, "verdict %s but %s (reporter %s, mode %s)" % (
                "failure" if failed else "success",
                "some check failed or a test ended abnormally" if bad else "every check passed and every test completed",
                rep, mode), replay_of(root, rep, mode, {"exit": run.exit, "stdout": run.stdout[-2000:]}))
    runner_cases_C01(chk)
    return chk.finish()


def runner_cases_C01(chk):
    """cgreen-runner on one or several generated libraries: exit status = OR over libraries."""
    import check_runner
    check_runner.verdict_cases(chk)


# ---------------------------------------------------------------------------------------
# C03
# ---------------------------------------------------------------------------------------
def check_C03(chk):
    drv = setup(chk, ["Properties_C03.v"])
    n = 12 if chk.tier == "quick" else 250
    cases = corner_cases(which=("skip-then-die", "die-after-completion")) + gen_cases(chk, n, modes=("forked",))
    cases += gen_cases(chk, max(3, n // 4), modes=("inproc",), kinds=[("pass", 4), ("fail", 3), ("empty", 1), ("xensure", 1), ("skiptest", 2), ("mixed", 2)])
    runs, mrs = run_cases(drv, cases)
    correspondence(chk, cases, runs, mrs)
    for (root, rep, mode), run, mr in zip(cases, runs, mrs):
        if run.timeout or mr.kind == "crash":
            continue
        cs = corners(root, mode)
        sigp = ""
        if cs:
            # every symptom of a listed corner in a scenario that contains it is that finding
            class _K(str):
                def __add__(self, other):
                    return str(self)
            sigp = _K(sorted(cs)[0])
        rp = lambda extra=None: replay_of(root, rep, mode, {"stdout": run.stdout[-2500:], **(extra or {})})
        own = mr.own
        # per-test credits
        for name, delta in L.log_tdone(run):
            if delta != own[name]:
                chk.violation(sigp + "credit", "test %s credited %s but its own results are %s (passes, failures, skips, exceptions)" % (name, delta, own[name]), rp())
        # totals and subtotals
        sd = L.log_sdone(run)
        tot = sd[-1][3] if sd else None
        exp = tuple(sum(own[n][i] for n in executed_tests(root, mode)) for i in range(4))
        if tot != exp:
            chk.violation(sigp + "totals", "totals %s but %s happened" % (tot, exp), rp())
        sub = tuple(sum(c[i] for n, c, d, t in sd) for i in range(4))
        if tot is not None and sub != tot:
            chk.violation(sigp + "subtotals", "per-suite subtotals add up to %s, grand total %s" % (sub, tot), rp())
        crumbs = cmp_c.crumb_names(root)
        if rep == "text":
            t = L.parse_text(run.stdout)
            if t["completed"] != exp:
                chk.violation(sigp + "text-completed", "Completed line %s but %s happened" % (t["completed"], exp), rp())
            psub = tuple(sum(c[i] for n, c in t["suites"]) for i in range(4))
            if t["completed"] is not None and psub != t["completed"]:
                chk.violation(sigp + "text-subtotals", "printed per-suite lines add up to %s, Completed line %s" % (psub, t["completed"]), rp())
            expf = sorted(tuple(crumbs[n][1:]) for n in executed_tests(root, mode) for _ in range(own[n][1]))
            gotf = sorted(tuple(c) for c, ln, m in t["failures"])
            if gotf != expf:
                chk.violation(sigp + "text-failure-lines", "failure lines name %s, failures were produced by %s" % (gotf, expf), rp())
            expe = sorted(tuple(crumbs[n][1:]) for n in executed_tests(root, mode) for _ in range(own[n][3]))
            gote = sorted(tuple(c) for c, ln, m in t["exceptions"])
            if gote != expe:
                chk.violation(sigp + "text-exception-lines", "exception lines name %s, abnormal ends were %s" % (gote, expe), rp())
        if rep == "cute":
            c = L.parse_cute(run.stdout)
            for n in executed_tests(root, mode):
                ok = own[n][1] == 0 and own[n][3] == 0
                marked = c["status"].get(n, []) == ["success"]
                if ok != marked:
                    chk.violation(sigp + "cute-status", "CUTE marks %s %s but it had %d failures, %d exceptions" % (
                        n, "successful" if marked else "not successful", own[n][1], own[n][3]), rp())
            if c["totals"] != (exp[0], exp[1], exp[3]):
                chk.violation(sigp + "cute-totals", "CUTE totals %s but %s happened" % (c["totals"], exp), rp())
        if rep in ("xml", "libxml"):
            try:
                x = L.parse_xml_files(run.files)
            except Exception as ex:
                chk.violation(sigp + "xml-malformed", "report is not well-formed: %s" % ex, rp())
                continue
            got = {c[0]: (c[2], c[3], c[4]) for f in x.values() for c in f["cases"]}
            for n in executed_tests(root, mode):
                e = (own[n][1], own[n][3], own[n][2])
                if got.get(n) != e:
                    chk.violation(sigp + "xml-status", "%s testcase %s shows (failures, errors, skipped) %s but %s happened" % (rep, n, got.get(n), e), rp())
    return chk.finish()


# ---------------------------------------------------------------------------------------
# C17
# ---------------------------------------------------------------------------------------
def check_C17(chk):
    drv = setup(chk, ["Properties_C17.v"])
    n = 10 if chk.tier == "quick" else 200
    cases = gen_cases(chk, n, modes=("forked",))
    cases += gen_cases(chk, max(2, n // 5), modes=("inproc",), kinds=[("pass", 4), ("fail", 3), ("empty", 1), ("xensure", 1), ("skiptest", 2), ("mixed", 2)])
    runs, mrs = run_cases(drv, cases)
    correspondence(chk, cases, runs, mrs)
    by_tree = {}
    for (root, rep, mode), run, mr in zip(cases, runs, mrs):
        by_tree.setdefault((id(root), str(mode)), []).append((root, rep, mode, run, mr))
    for group in by_tree.values():
        obs = []
        for root, rep, mode, run, mr in group:
            if run.timeout:
                chk.violation("nontermination-" + rep, "run did not terminate", replay_of(root, rep, mode))
                continue
            if mr.kind == "crash":
                continue        # the runner's own process ended (in-process death): nothing to compare
            sd = L.log_sdone(run)
            obs.append((rep, run.exit != 0, sd[-1][3] if sd else None, L.log_tdone(run),
                        cmp_c.reported_counts(rep, run), root, mode, run))
        for a, b in itertools.combinations(obs, 2):
            ra, rb = a[0], b[0]
            rp = replay_of(a[5], ra, a[6], {"other_reporter": rb, "stdout": a[7].stdout[-1500:], "other_stdout": b[7].stdout[-1500:]})
            if a[1] != b[1]:
                chk.violation("verdict-%s-%s" % (ra, rb), "verdict differs between reporters %s (%s) and %s (%s)" % (ra, a[1], rb, b[1]), rp)
            if a[2] != b[2]:
                chk.violation("counts-%s-%s" % (ra, rb), "counted totals differ: %s %s, %s %s" % (ra, a[2], rb, b[2]), rp)
            if a[3] != b[3]:
                chk.violation("attribution-%s-%s" % (ra, rb), "per-test credits differ: %s %s, %s %s" % (ra, a[3], rb, b[3]), rp)
            ca, cb = a[4], b[4]
            if ca is None and ra != "quiet":
                chk.violation("unreadable-" + ra, "native output of %s shows no totals / is unreadable" % ra, rp)
            if ca and cb:
                for k in ("p", "f", "s", "e", "exc_tests", "fail_tests"):
                    if k in ca and k in cb and ca[k] != cb[k]:
                        if k == "fail_tests" and "cute" in (ra, rb):
                            continue
                        chk.violation("reported-%s-%s-%s" % (k, ra, rb), "reported %s differs: %s shows %s, %s shows %s" % (
                            {"p": "passes", "f": "failures", "s": "skips", "e": "exceptions", "exc_tests": "tests with exceptions",
                             "fail_tests": "tests with failures"}[k], ra, ca[k], rb, cb[k]), rp)
    return chk.finish()
