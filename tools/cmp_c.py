"""Comparison of one implementation run with the model's prediction and with the ground
truth (`own`), for every reporter's native output."""
import xml.etree.ElementTree as ET
import layerc as L


def crumb_names(root):
    """test name -> list of enclosing suite names (outermost first) + test name"""
    res = {}

    def go(s, path):
        for c in s.children:
            if isinstance(c, L.Test):
                res[c.name] = path + [s.name, c.name]
            else:
                go(c, path + [s.name])
    go(root, [])
    return res


def suite_paths(root):
    res = {}

    def go(s, path):
        res[s.name] = path + [s.name]
        for c in s.children:
            if isinstance(c, L.Suite):
                go(c, path + [s.name])
    go(root, [])
    return res


def model_vs_impl(root, reporter, mode, run, mr, overflow=False):
    """-> list of disagreement strings (empty = the implementation behaved as the model)"""
    dis = []
    if run.timeout:
        return ["implementation did not terminate"]
    if run.exit != mr.expected_exit():
        dis.append("exit status %s, model %s" % (run.exit, mr.expected_exit()))
    got = L.log_tdone(run)
    exp = [(n, d) for n, d, clean in mr.tdone()]
    if got != exp:
        dis.append("per-test credits %s, model %s" % (got, exp))
    gs = [(n, c, depth) for n, c, depth, tot in L.log_sdone(run)]
    if gs != mr.sdone():
        dis.append("per-suite counters %s, model %s" % (gs, mr.sdone()))
    sd = L.log_sdone(run)
    if mr.totals() is not None:
        if not sd or sd[-1][3] != mr.totals():
            dis.append("totals %s, model %s" % (sd[-1][3] if sd else None, mr.totals()))
    if mr.kind == "crash" or overflow:
        return dis
    dis += native_vs_model(root, reporter, run, mr)
    return dis


def native_vs_model(root, reporter, run, mr):
    dis = []
    crumbs = crumb_names(root)
    msgs = mr.child_msgs()
    # a process killed between showing a result and sending its record has printed one more
    # line than it delivered records: its child-side output is not compared
    loose = {t.name for s, t in root.tests() if t.kill and t.kill[0] == "before_write"}
    if reporter == "text":
        t = L.parse_text(run.stdout)
        exp_suites = [(n, c) for n, c, depth in mr.sdone() if depth != 0 or any(c)]
        if t["suites"] != exp_suites:
            dis.append("text per-suite lines %s, model %s" % (t["suites"], exp_suites))
        if t["completed"] != mr.totals():
            dis.append("text Completed line %s, model %s" % (t["completed"], mr.totals()))
        # the text reporter's breadcrumb omits the outermost suite
        exp_exc = [c[1:] for c, sg in mr.incompletes()]
        if [c for c, ln, m in t["exceptions"]] != exp_exc:
            dis.append("text exception lines %s, model %s" % ([c for c, ln, m in t["exceptions"]], exp_exc))
        exp_f = []
        for name in mr.started():
            if name not in loose:
                exp_f += [crumbs[name][1:]] * msgs.get(name, "").count("F")
        if [c for c, ln, m in t["failures"] if c[-1] not in loose] != exp_f:
            dis.append("text failure lines %s, model %s" % ([c for c, ln, m in t["failures"]], exp_f))
    elif reporter == "quiet":
        t = L.parse_text(run.stdout)
        chars = "".join(ch for ch in run.stdout.split("\n")[-2 if run.stdout.endswith("\n") else -1] if ch in ".FX") \
            if run.stdout else ""
        exp = "".join("X" if c[3] else "F" if c[1] else "." for n, c, depth in mr.sdone())
        allchars = "".join(l for l in run.stdout.split("\n") if l and set(l) <= set(".FX"))
        if allchars != exp:
            dis.append("quiet progress characters %r, model %r" % (allchars, exp))
    elif reporter == "cute":
        c = L.parse_cute(run.stdout)
        exp_status = {}
        for n, d, clean in mr.tdone():
            if clean:
                exp_status.setdefault(n, []).append("success")
        if c["status"] != exp_status:
            dis.append("cute #success lines %s, model %s" % (c["status"], exp_status))
        tot = mr.totals()
        if tot is not None and c["totals"] != (tot[0], tot[1], tot[3]):
            dis.append("cute totals %s, model %s" % (c["totals"], (tot[0], tot[1], tot[3])))
        exp_err = [cr[-1] for cr, sg in mr.incompletes()]
        if c["errors"] != exp_err:
            dis.append("cute #error lines %s, model %s" % (c["errors"], exp_err))
        exp_fail = [n for n in mr.started() if "F" in msgs.get(n, "") and n not in loose]
        if [n for n in c["failures"] if n not in loose] != exp_fail:
            dis.append("cute #failure lines %s, model %s" % (c["failures"], exp_fail))
    elif reporter in ("xml", "libxml"):
        try:
            x = L.parse_xml_files(run.files)
        except ET.ParseError as ex:
            return ["XML output not well-formed: %s" % ex]
        got = sorted((c[0], c[2] if c[0] not in loose else 0, c[3], c[4]) for f in x.values() for c in f["cases"])
        inc = {cr[-1] for cr, sg in mr.incompletes()}
        sk = {cr[-1] for cr in mr.skipshown()}
        exp = sorted((n, msgs.get(n, "").count("F") if n not in loose else 0, 1 if n in inc else 0, 1 if n in sk else 0)
                     for n in mr.started())
        if got != exp:
            dis.append("%s testcases (name, failures, errors, skipped) %s, model %s" % (reporter, got, exp))
    elif reporter == "cdash":
        c = L.parse_cdash(run.files)
        exp_p = []
        exp_f = []
        for n in mr.started():
            if n not in loose:
                exp_p += [n] * msgs.get(n, "").count("P")
                exp_f += [n] * msgs.get(n, "").count("F")
        exp_i = [cr[-1] for cr, sg in mr.incompletes()]
        c["passed"] = [n for n in c["passed"] if n not in loose]
        c["failed"] = [n for n in c["failed"] if n not in loose]
        if sorted(c["passed"]) != sorted(exp_p) or sorted(c["failed"]) != sorted(exp_f) or \
           sorted(c["incomplete"]) != sorted(exp_i):
            dis.append("cdash entries passed=%s failed=%s incomplete=%s, model %s %s %s" % (
                c["passed"], c["failed"], c["incomplete"], exp_p, exp_f, exp_i))
    return dis


def reported_counts(reporter, run):
    """The counts a reporter's native output shows, as a dict with keys among p f s e (None
    when the format does not show that count), plus per-test status where shown."""
    if reporter == "text":
        t = L.parse_text(run.stdout)
        c = t["completed"]
        return None if c is None else {"p": c[0], "f": c[1], "s": c[2], "e": c[3],
                                       "exc_tests": sorted(x[0][-1] for x in t["exceptions"]),
                                       "fail_tests": sorted(x[0][-1] for x in t["failures"])}
    if reporter == "cute":
        c = L.parse_cute(run.stdout)
        if c["totals"] is None:
            return None
        return {"p": c["totals"][0], "f": c["totals"][1], "e": c["totals"][2],
                "exc_tests": sorted(c["errors"])}
    if reporter in ("xml", "libxml"):
        try:
            x = L.parse_xml_files(run.files)
        except ET.ParseError:
            return None
        cases = [c for f in x.values() for c in f["cases"]]
        return {"f": sum(c[2] for c in cases), "e": sum(c[3] for c in cases), "s": sum(c[4] for c in cases),
                "exc_tests": sorted(c[0] for c in cases if c[3]),
                "fail_tests": sorted(c[0] for c in cases for _ in range(c[2]))}
    if reporter == "cdash":
        c = L.parse_cdash(run.files)
        return {"p": len(c["passed"]), "f": len(c["failed"]), "e": len(c["incomplete"]),
                "exc_tests": sorted(c["incomplete"]), "fail_tests": sorted(c["failed"])}
    return None
