"""Translator items for the fixed-size character buffers (C20): every `char x[N]` array of the
files below and every call that writes a string into one (sprintf, snprintf, vsnprintf, strcpy,
strcat, strncat, fgets, strftime, read_line, x[0] = 0), as programs of coq/Buffers.v.

One program per C function that owns or fills such an array; calls of functions defined in the
same file are inlined (their buffer and string parameters bound to the caller's arguments), `if`
becomes If, loops become Loop, `if (...) { ...; return; } rest` becomes If(..., rest).  A function
the translator cannot express is left out and named in `buffer_unmodelled` (the check compares
that list with the one it knows and lets the sanitizer runs carry those functions)."""
import os, re
from srcfacts import Cannot, walk, strip

FILES = ["src/text_reporter.c", "src/xml_reporter.c", "src/libxml_reporter.c", "src/utils.c",
         "src/constraint.c", "src/mocks.c", "src/message_formatting.c", "src/posix_runner_platform.c",
         "src/cute_reporter.c", "src/reporter.c", "src/runner.c", "src/breadcrumb.c", "src/suite.c",
         "src/parameters.c", "src/cdash_reporter.c",
         "tools/cgreen-runner.c", "tools/discoverer.c", "tools/runner.c", "tools/test_item.c"]

INT_WIDTH = {"d": 11, "i": 11, "u": 10, "x": 8, "X": 8, "o": 11, "c": 1}
LONG_WIDTH = {"d": 20, "i": 20, "u": 20, "x": 16, "X": 16, "o": 22}

# callees that only read the strings they are given (or do not touch tracked arrays at all)
READERS = {"strlen", "strcmp", "strncmp", "strstr", "strchr", "strrchr", "fopen", "mkdir", "printf", "fprintf", "fputs",
           "puts", "strdup", "atoi", "strtol", "open_process", "open_file", "access", "dlopen", "dlsym", "fnmatch",
           "strcasecmp", "perror", "free", "fclose", "pclose", "va_start", "va_end", "__builtin_va_start",
           "__builtin_va_end", "strerror", "exit", "abort", "fflush", "getenv"}


def qual(n):
    return (n.get("type") or {}).get("qualType", "")


def array_cap(decl):
    """capacity of a writable char array (const arrays hold literals and are never written)"""
    m = re.match(r"^char ?\[(\d+)\]$", qual(decl))
    return int(m.group(1)) if m else None


def fn_type_of(e):
    t = e.get("type") or {}
    return t.get("desugaredQualType") or t.get("qualType", "")


def peel(e):
    """strip parentheses and every implicit / C-style cast"""
    while True:
        e = strip(e)
        if e.get("kind") in ("ImplicitCastExpr", "CStyleCastExpr") and e.get("inner"):
            e = e["inner"][0]
        else:
            return e


def callee_name(call):
    c = peel(call["inner"][0])
    if c.get("kind") == "DeclRefExpr":
        return c["referencedDecl"]["name"]
    return None


def is_call_to(e, name):
    e = peel(e)
    return e.get("kind") == "CallExpr" and callee_name(e) == name


class Piece:
    def __init__(self, kind, n=None):
        self.kind, self.n = kind, n           # "lit" n | "max" n | "buf" id | "any"

    def coq(self):
        return {"lit": "PLit %d%%N", "max": "PMax %d%%N", "buf": "PBuf %d"}.get(self.kind, "PAny") % \
            ((self.n,) if self.kind != "any" else ())

    def bound(self, caps):
        return self.n if self.kind in ("lit", "max") else caps[self.n] - 1 if self.kind == "buf" else None


def merge_lits(ps):
    out = []
    for p in ps:
        if p.kind == "lit" and p.n == 0:
            continue
        if out and out[-1].kind == "lit" and p.kind == "lit":
            out[-1] = Piece("lit", out[-1].n + p.n)
        elif out and out[-1].kind in ("lit", "max") and p.kind in ("lit", "max") and (out[-1].kind == "max" or p.kind == "max"):
            out[-1] = Piece("max", out[-1].n + p.n)
        else:
            out.append(p)
    return out


class World:
    def __init__(self):
        self.caps, self.locals, self.where = [], [], []      # per buffer id
        self.ids = {}                                         # (file, decl id) -> buffer id

    def buf(self, rel, fn, decl, local):
        key = (rel, decl["id"])
        if key not in self.ids:
            self.ids[key] = len(self.caps)
            self.caps.append(array_cap(decl))
            self.where.append("%s:%s:%s[%d]%s" % (rel, fn or "<file>", decl["name"], array_cap(decl), "" if local else " static"))
            if local:
                self.locals.append(self.ids[key])
        return self.ids[key]


class Fn:
    """translation of one function body under an environment"""

    def __init__(self, world, tu, depth=0):
        self.w, self.tu, self.depth = world, tu, depth
        self.bufs = {}        # decl id or parameter decl id -> (buffer id, append?)  (append only for bound params)
        self.strs = {}        # decl id -> Piece
        self.ints = {}        # decl id -> int
        self.fname = None
        self.ret_buf = None   # buffer id the function returns, if it returns one of its tracked arrays
        self.gl = {}          # file-scope arrays: decl id -> (buffer id, False)

    # ---- expressions
    def const_int(self, e):
        e = peel(e)
        k = e.get("kind")
        if k == "IntegerLiteral":
            return int(e["value"])
        if k == "CharacterLiteral":
            return int(e["value"])
        if k == "ConstantExpr":
            return self.const_int(e["inner"][0])
        if k == "UnaryExprOrTypeTraitExpr" and e.get("name") == "sizeof":
            if e.get("inner"):
                sub = peel(e["inner"][0])
                b = self.buffer_of(sub, allow_param=False)
                if b is not None and not b[1]:
                    return self.w.caps[b[0]]
                m = re.match(r"^(?:const )?char ?\[(\d+)\]$", qual(sub))
                if m:
                    return int(m.group(1))
                if qual(sub) in ("char", "const char"):
                    return 1
            at = (e.get("argType") or {}).get("qualType")
            if at == "char":
                return 1
            raise Cannot("sizeof of something else")
        if k == "DeclRefExpr":
            did = e["referencedDecl"]["id"]
            if did in self.ints:
                return self.ints[did]
            raise Cannot("integer variable " + e["referencedDecl"]["name"])
        if k == "BinaryOperator" and e["opcode"] in ("+", "-", "*", "/"):
            a, b = self.const_int(e["inner"][0]), self.const_int(e["inner"][1])
            if e["opcode"] == "/":
                if b <= 0 or a < 0:
                    raise Cannot("division")
                return a // b
            return a + b if e["opcode"] == "+" else a - b if e["opcode"] == "-" else a * b
        raise Cannot("integer expression " + str(k))

    def buffer_of(self, e, allow_param=True):
        """(buffer id, append?) when e designates a tracked array (start or end of its string)"""
        e = peel(e)
        k = e.get("kind")
        if k == "DeclRefExpr":
            did = e["referencedDecl"]["id"]
            if did in self.bufs:
                return self.bufs[did]
            return None
        if k == "UnaryOperator" and e.get("opcode") == "&":
            sub = peel(e["inner"][0])
            if sub.get("kind") == "ArraySubscriptExpr":
                base = self.buffer_of(sub["inner"][0])
                if base is not None and not base[1]:
                    idx = peel(sub["inner"][1])
                    if self.is_strlen_of(idx, base[0]):
                        return (base[0], True)
                    try:
                        if self.const_int(idx) == 0:
                            return base
                    except Cannot:
                        pass
                    raise Cannot("destination inside an array at a computed offset")
        if k == "BinaryOperator" and e.get("opcode") == "+":
            base = self.buffer_of(e["inner"][0])
            if base is not None and not base[1]:
                if self.is_strlen_of(e["inner"][1], base[0]):
                    return (base[0], True)
                raise Cannot("destination inside an array at a computed offset")
        return None

    def is_strlen_of(self, e, bid):
        e = peel(e)
        if e.get("kind") == "CallExpr" and callee_name(e) == "strlen":
            b = self.buffer_of(e["inner"][1])
            return b is not None and b == (bid, False)
        return False

    def size_arg(self, e, dst):
        """('limit', n) or ('remaining', k) for a size argument"""
        try:
            return ("limit", self.const_int(e))
        except Cannot:
            pass
        # sizeof(buf) - strlen(buf) [- k]
        terms, k = [], 0
        e = peel(e)

        def flat(x, sign):
            x = peel(x)
            if x.get("kind") == "BinaryOperator" and x["opcode"] in ("+", "-"):
                flat(x["inner"][0], sign)
                flat(x["inner"][1], sign if x["opcode"] == "+" else -sign)
            else:
                terms.append((sign, x))
        flat(e, 1)
        cap = self.w.caps[dst[0]]
        total, strlens = 0, 0
        for sign, x in terms:
            if self.is_strlen_of(x, dst[0]):
                strlens += sign
            else:
                total += sign * self.const_int(x)
        if strlens == -1 and total <= cap:
            return ("remaining", cap - total)
        raise Cannot("size argument")

    def piece_of(self, e):
        e = peel(e)
        k = e.get("kind")
        if k == "StringLiteral":
            return Piece("lit", c_strlen(e.get("value", '""')))
        if k == "ConditionalOperator":
            a, b = self.piece_of(e["inner"][1]), self.piece_of(e["inner"][2])
            ba, bb = a.bound(self.w.caps), b.bound(self.w.caps)
            if a.kind == "lit" and b.kind == "lit" and a.n == b.n:
                return a
            if ba is not None and bb is not None:
                return Piece("max", max(ba, bb))
            return Piece("any")
        if k == "DeclRefExpr":
            did = e["referencedDecl"]["id"]
            if did in self.bufs:
                b = self.bufs[did]
                if not b[1]:
                    return Piece("buf", b[0])
                return Piece("any")
            if did in self.strs:
                return self.strs[did]
            return Piece("any")
        if k == "CallExpr":
            name = callee_name(e)
            if name in self.tu["funs"] and name in self.inlined_ret:
                rb = self.inlined_ret[name]
                if rb is not None:
                    return Piece("buf", rb)
        return Piece("any")

    # ---- format strings
    def format_pieces(self, fmt_e, args):
        f = peel(fmt_e)
        if f.get("kind") != "StringLiteral":
            raise Cannot("format is not a literal")
        text = c_unescape(f.get("value", '""'))
        out, i, ai = [], 0, 0
        while i < len(text):
            c = text[i]
            if c != "%":
                out.append(Piece("lit", 1)); i += 1
                continue
            m = re.match(r"%([-+ #0]*)(\d+|\*)?(?:\.(\d+|\*))?(hh|h|ll|l|z|j|t)?([diouxXcsp%])", text[i:])
            if not m:
                raise Cannot("conversion in format " + text[i:i + 6])
            flags, width, prec, length, conv = m.groups()
            i += len(m.group(0))
            if conv == "%":
                out.append(Piece("lit", 1))
                continue
            if width == "*" or prec == "*":
                raise Cannot("* in format")
            if ai >= len(args):
                raise Cannot("format has more conversions than arguments")
            arg = args[ai]; ai += 1
            if conv == "s":
                p = self.piece_of(arg)
                if prec is not None:
                    b = p.bound(self.w.caps)
                    p = Piece("max", min(int(prec), b) if b is not None else int(prec))
                if width is not None:
                    b = p.bound(self.w.caps)
                    if b is None:
                        p = Piece("any")
                    else:
                        p = Piece("max", max(int(width), b))
                out.append(p)
            else:
                base = (LONG_WIDTH if length in ("l", "ll", "z", "j", "t") else INT_WIDTH).get(conv)
                if conv == "p":
                    base = 18
                if base is None:
                    raise Cannot("conversion %" + conv)
                extra = (1 if "+" in flags or " " in flags else 0) + (2 if "#" in flags else 0)
                n = max(int(width) if width else 0, max(base, int(prec) if prec else 0) + extra)
                out.append(Piece("max", n) if conv != "c" or width else Piece("lit", 1))
        return merge_lits(out)

    # ---- statements
    inlined_ret = None

    def ops_in_expr(self, e):
        """programs for the writer calls inside an expression, in evaluation order (arguments first)"""
        if not isinstance(e, dict):
            return []
        k = e.get("kind")
        if k in ("ConditionalOperator", "BinaryConditionalOperator") or (k == "BinaryOperator" and e.get("opcode") in ("&&", "||")):
            inner = []
            for c in e.get("inner", []):
                inner += self.ops_in_expr(c)
            if inner:
                raise Cannot("writer call under ?: or && / ||")
            return []
        if k == "BinaryOperator" and e.get("opcode") == "=":
            lhs = peel(e["inner"][0])
            if lhs.get("kind") == "ArraySubscriptExpr":
                b = self.buffer_of(lhs["inner"][0])
                if b is not None:
                    try:
                        zero_index = self.const_int(lhs["inner"][1]) == 0
                        zero_value = self.const_int(e["inner"][1]) == 0
                    except Cannot:
                        zero_index = zero_value = False
                    if zero_index and zero_value and not b[1]:
                        return self.ops_in_expr(e["inner"][1]) + [op(b[0], False, "Unlimited", [])]
                    raise Cannot("element of a tracked array assigned")
        if k != "CallExpr":
            out = []
            for c in e.get("inner", []) or []:
                out += self.ops_in_expr(c)
            return out
        out = []
        for a in e["inner"][1:]:
            out += self.ops_in_expr(a)
        name = callee_name(e)
        args = e["inner"][1:]
        w = self.writer(name, args)
        if w is not None:
            return out + [w]
        if name in self.tu["funs"] and name != self.fname:
            return out + self.inline(name, args)
        # a function of this file handed over as a callback: it may run any number of times during the call
        for a in args:
            r = peel(a)
            if r.get("kind") == "UnaryOperator" and r.get("opcode") == "&":
                r = peel(r["inner"][0])
            if r.get("kind") == "DeclRefExpr" and (r.get("referencedDecl") or {}).get("kind") == "FunctionDecl":
                cb = r["referencedDecl"]["name"]
                if cb in self.tu["funs"] and cb != self.fname:
                    body = seq(self.inline(cb, []))
                    if body != "Skip":
                        out.append("(Loop %s)" % body)
        # unknown callee: may it write into a tracked array?
        ctype = fn_type_of(peel(e["inner"][0]))
        base = ctype.replace("*", "").strip()
        if base in self.tu.get("typedefs", {}):
            ctype = self.tu["typedefs"][base]
        ptypes = param_types(ctype)
        for i, a in enumerate(args):
            b = None
            try:
                b = self.buffer_of(a)
            except Cannot:
                b = (None, None)
            if b is None:
                continue
            variadic = bool(ptypes) and ptypes[-1] == "..."
            pt = ptypes[i] if i < len(ptypes) else ("..." if variadic else "")
            if name in READERS or "const" in pt or pt == "...":
                continue
            if name in ("cgreen_pipe_read", "read"):
                continue
            raise Cannot("tracked array passed to %s which may write to it" % (name or "a function pointer"))
        return out

    def writer(self, name, args):
        if name in ("__builtin___sprintf_chk", "__builtin___snprintf_chk"):
            raise Cannot("fortified builtin in the AST")
        if name not in ("sprintf", "snprintf", "vsprintf", "vsnprintf", "strcpy", "strcat", "strncat", "strncpy", "fgets",
                        "strftime", "read_line", "memset", "memcpy", "memmove", "gets", "sscanf"):
            return None
        di = 1 if name == "read_line" else 0
        dst = self.buffer_of(args[di])
        if dst is None:
            return None               # writes somewhere else (heap memory, a caller's pointer)
        bid, app = dst
        if name == "sprintf":
            return op(bid, app, "Unlimited", self.format_pieces(args[1], args[2:]))
        if name == "vsprintf":
            return op(bid, app, "Unlimited", [Piece("any")])
        if name in ("snprintf", "vsnprintf"):
            kind, n = self.size_arg(args[1], dst)
            pieces = self.format_pieces(args[2], args[3:]) if name == "snprintf" else [Piece("any")]
            if kind == "limit":
                return op(bid, app, "Limit %d%%N" % n, pieces)
            if not app:
                raise Cannot("size computed from strlen but destination is the start of the array")
            return op(bid, True, "Remaining %d%%N" % n, pieces)
        if name == "strcpy":
            return op(bid, app, "Unlimited", [self.piece_of(args[1])])
        if name == "strcat":
            if app:
                raise Cannot("strcat at an offset")
            return op(bid, True, "Unlimited", [self.piece_of(args[1])])
        if name == "strncat":
            if app:
                raise Cannot("strncat at an offset")
            kind, n = self.size_arg(args[2], (bid, True))
            if kind == "limit":
                return op(bid, True, "Limit %d%%N" % (n + 1), [self.piece_of(args[1])])
            # at most n characters and the NUL: sizeof - strlen - k characters is sizeof - strlen - (k-1) bytes
            if n < 1:
                return op(bid, True, "Unlimited", [self.piece_of(args[1])])      # the classic off by one
            return op(bid, True, "Remaining %d%%N" % (n - 1), [self.piece_of(args[1])])
        if name in ("fgets", "strftime"):
            kind, n = self.size_arg(args[1], dst)
            if kind != "limit":
                raise Cannot("size argument of " + name)
            return op(bid, app, "Limit %d%%N" % n, [Piece("any")])
        if name == "read_line":
            kind, n = self.size_arg(args[2], dst)
            if kind != "limit":
                raise Cannot("size argument of read_line")
            return op(bid, app, "Limit %d%%N" % n, [Piece("any")])
        if name == "memset" and not app:
            try:
                fill, n = self.const_int(args[1]), self.const_int(args[2])
            except Cannot:
                raise Cannot("memset on a tracked array with a computed size")
            if fill == 0 and n >= 1:
                # n zero bytes: the empty string, provided they fit (else the check must fail: n bytes of text)
                return op(bid, False, "Unlimited", [] if n <= self.w.caps[bid] else [Piece("lit", n)])
        raise Cannot("%s on a tracked array" % name)

    def inline(self, name, args):
        if self.depth > 4:
            raise Cannot("inlining too deep")
        callee = self.tu["funs"][name]
        sub = Fn(self.w, self.tu, self.depth + 1)
        sub.fname = name
        sub.inlined_ret = self.inlined_ret
        sub.gl = self.gl
        sub.bufs = dict(self.gl)
        handed = []
        params = [c for c in callee.get("inner", []) if c.get("kind") == "ParmVarDecl"]
        for p, a in zip(params, args):
            t = qual(p)
            try:
                b = self.buffer_of(a)
            except Cannot:
                b = None
            if b is not None:
                sub.bufs[p["id"]] = b
                handed.append(b)
                continue
            if "char" in t and "*" in t or "char" in t and "[" in t:
                sub.strs[p["id"]] = self.piece_of(a)
            else:
                try:
                    sub.ints[p["id"]] = self.const_int(a)
                except Cannot:
                    pass
        snapshot = (list(self.w.caps), list(self.w.locals), list(self.w.where), dict(self.w.ids))
        try:
            prog = sub.body(callee)
        except Cannot:
            if handed:
                raise              # it was handed one of the caller's arrays
            # a function of this file that the translator cannot express and that only touches static arrays of its
            # own: it is named in buffer_unmodelled; here its arrays are taken to hold, as between calls, a string
            # that fits (that is what the sanitizer runs check for it)
            self.w.caps, self.w.locals, self.w.where, self.w.ids = snapshot
            self.inlined_ret[name] = None
            for n in walk(callee):
                if n.get("kind") == "ReturnStmt" and n.get("inner"):
                    r = peel(n["inner"][0])
                    if r.get("kind") == "DeclRefExpr":
                        for d in walk(callee):
                            if d.get("kind") == "VarDecl" and d.get("id") == r["referencedDecl"]["id"] and array_cap(d) is not None \
                                    and d.get("storageClass") == "static":
                                self.inlined_ret[name] = self.w.buf(self.tu["rel"], name, d, False)
            return []
        self.inlined_ret[name] = sub.ret_buf
        return [prog] if prog != "Skip" else []

    def declare(self, d, rel):
        """a VarDecl inside a function"""
        cap = array_cap(d)
        if cap is not None:
            static = d.get("storageClass") == "static"
            self.bufs[d["id"]] = (self.w.buf(rel, self.fname, d, not static), False)
            return
        t = qual(d)
        init = [c for c in d.get("inner", []) if c.get("kind") not in ("FullComment",)]
        if init and "char" in t and "*" in t and "const" in t:
            try:
                self.strs[d["id"]] = self.piece_of(init[0])
            except Cannot:
                pass

    def stmt(self, s):
        k = s.get("kind")
        if k == "CompoundStmt":
            return self.block(s.get("inner", []) or [])
        if k == "DeclStmt":
            progs = []
            for d in s.get("inner", []):
                if d.get("kind") == "VarDecl":
                    self.declare(d, self.tu["rel"])
                    for c in d.get("inner", []) or []:
                        progs += self.ops_in_expr(c)
            return seq(progs)
        if k == "IfStmt":
            inner = s["inner"]
            cond = self.ops_in_expr(inner[0])
            a = self.stmt(inner[1])
            b = self.stmt(inner[2]) if len(inner) > 2 else "Skip"
            return seq(cond + [iff(a, b)])
        if k in ("WhileStmt", "DoStmt", "ForStmt"):
            parts = [c for c in s.get("inner", []) if isinstance(c, dict) and c]
            progs = []
            for c in parts:
                if c.get("kind") in ("CompoundStmt", "IfStmt", "WhileStmt", "ForStmt", "DoStmt", "DeclStmt", "ReturnStmt", "SwitchStmt"):
                    progs.append(self.stmt(c))
                else:
                    progs += self.ops_in_expr(c)
            body = seq(progs)
            return "Skip" if body == "Skip" else "(Loop %s)" % body
        if k == "ReturnStmt":
            progs = []
            for c in s.get("inner", []) or []:
                progs += self.ops_in_expr(c)
                r = peel(c)
                if r.get("kind") == "DeclRefExpr" and r["referencedDecl"]["id"] in self.bufs:
                    b = self.bufs[r["referencedDecl"]["id"]]
                    if not b[1]:
                        self.ret_buf = b[0]
            return seq(progs)
        if k == "SwitchStmt":
            # control jumps to one label and runs on to a break: every statement of the body may or may not run, in order
            progs = []
            for c in s.get("inner", []):
                if c.get("kind") == "CompoundStmt":
                    for st in c.get("inner", []):
                        progs.append(iff(self.stmt(st), "Skip"))
                elif c.get("kind", "").endswith("Stmt"):
                    progs.append(iff(self.stmt(c), "Skip"))
                else:
                    progs += self.ops_in_expr(c)
            return seq(progs)
        if k in ("NullStmt", "BreakStmt", "ContinueStmt", "GotoStmt", "LabelStmt"):
            if k in ("GotoStmt", "LabelStmt"):
                raise Cannot("goto")
            return "Skip"
        if k in ("CaseStmt", "DefaultStmt"):
            return seq([self.stmt(c) if c.get("kind", "").endswith("Stmt") else seq(self.ops_in_expr(c)) for c in s.get("inner", [])])
        return seq(self.ops_in_expr(s))

    def block(self, stmts):
        progs = []
        for i, s in enumerate(stmts):
            if s.get("kind") == "IfStmt" and len(s["inner"]) == 2 and always_leaves(s["inner"][1]) and i + 1 < len(stmts):
                # if (c) { A; return; } rest   ==   if (c) A else rest
                cond = self.ops_in_expr(s["inner"][0])
                a = self.stmt(s["inner"][1])
                rest = self.block(stmts[i + 1:])
                return seq(progs + cond + [iff(a, rest)])
            if contains_return(s) and s.get("kind") not in ("ReturnStmt",) and i + 1 < len(stmts):
                rest = self.block(stmts[i + 1:])
                here = self.stmt(s)
                if rest != "Skip":
                    # a return somewhere inside: what follows may or may not run
                    return seq(progs + [here, iff(rest, "Skip")])
                return seq(progs + [here])
            progs.append(self.stmt(s))
        return seq(progs)

    def body(self, fn):
        for c in fn.get("inner", []):
            if c.get("kind") == "CompoundStmt":
                return self.stmt(c)
        raise Cannot("no body")


def always_leaves(s):
    if s.get("kind") == "ReturnStmt":
        return True
    if s.get("kind") == "CompoundStmt" and s.get("inner"):
        last = s["inner"][-1]
        if last.get("kind") == "ReturnStmt":
            return True
        return is_noreturn_call(last)
    return is_noreturn_call(s)


def is_noreturn_call(s):
    e = peel(s) if isinstance(s, dict) else {}
    return e.get("kind") == "CallExpr" and callee_name(e) in ("exit", "abort", "_exit")


def contains_return(s):
    return any(n.get("kind") == "ReturnStmt" for n in walk(s))


def param_types(fn_type):
    """'int (FILE *, const char *, ...)' or a pointer to it -> ['FILE *', 'const char *', '...']"""
    m = re.search(r"\(([^()]*)\)\s*$", fn_type.replace("(*)", ""))
    if not m:
        return []
    return [p.strip() for p in m.group(1).split(",")] if m.group(1).strip() else []


def op(bid, app, limit, pieces):
    return "(Op (mkws %d %s (%s) [%s]))" % (bid, "true" if app else "false", limit, "; ".join(p.coq() for p in merge_lits(pieces))) \
        if limit != "Unlimited" else \
        "(Op (mkws %d %s Unlimited [%s]))" % (bid, "true" if app else "false", "; ".join(p.coq() for p in merge_lits(pieces)))


def seq(progs):
    progs = [p for p in progs if p != "Skip"]
    if not progs:
        return "Skip"
    out = progs[-1]
    for p in reversed(progs[:-1]):
        out = "(Seq %s %s)" % (p, out)
    return out


def iff(a, b):
    if a == "Skip" and b == "Skip":
        return "Skip"
    return "(If %s %s)" % (a, b)


def c_unescape(lit):
    """the characters of a C string literal as clang prints it (adjacent literals already joined)"""
    s = lit
    if s.startswith('"') and s.endswith('"'):
        s = s[1:-1]
    out, i = [], 0
    while i < len(s):
        c = s[i]
        if c != "\\":
            out.append(c); i += 1
            continue
        i += 1
        c = s[i]
        if c in "01234567":
            m = re.match(r"[0-7]{1,3}", s[i:])
            out.append(chr(int(m.group(0), 8))); i += len(m.group(0))
        elif c == "x":
            m = re.match(r"x([0-9a-fA-F]+)", s[i:])
            out.append(chr(int(m.group(1), 16) & 0xff)); i += len(m.group(0))
        else:
            out.append({"n": "\n", "t": "\t", "r": "\r", "a": "\a", "b": "\b", "f": "\f", "v": "\v", "e": "\x1b"}.get(c, c)); i += 1
    return "".join(out)


def c_strlen(lit):
    return len(c_unescape(lit))


def name_bytes(s):
    return "[" + "; ".join("%d%%N" % b for b in s.encode()) + "]"


def translate(tus):
    """tus: rel -> translation unit.  Returns (caps text, locals text, progs text, unmodelled text, info)"""
    world = World()
    progs, unmodelled, info = [], [], []
    for rel in FILES:
        tu = tus(rel)
        # file-scope arrays
        gl = {}
        for name, d in sorted(tu["gvars"].items()):
            pass
        for fname in sorted(tu["funs"]):
            fn = tu["funs"][fname]
            own_arrays = [n for n in walk(fn) if n.get("kind") == "VarDecl" and array_cap(n) is not None]
            t = Fn(world, tu)
            t.fname = fname
            t.inlined_ret = {}
            # file-scope arrays of this translation unit are visible in every function
            for d in tu["all_gvars"]:
                if array_cap(d) is not None:
                    t.gl[d["id"]] = (world.buf(rel, None, d, False), False)
            t.bufs = dict(t.gl)
            snapshot = (list(world.caps), list(world.locals), list(world.where), dict(world.ids))
            try:
                prog = t.body(fn)
            except Cannot as ex:
                if own_arrays or touches_tracked(fn, t):
                    unmodelled.append((rel, fname, str(ex)))
                world.caps, world.locals, world.where, world.ids = snapshot
                continue
            except (KeyError, IndexError, TypeError) as ex:
                unmodelled.append((rel, fname, "unexpected shape: %r" % ex))
                world.caps, world.locals, world.where, world.ids = snapshot
                continue
            if prog != "Skip":
                progs.append((rel, fname, prog))
    return world, progs, unmodelled


def touches_tracked(fn, t):
    ids = set(t.bufs)
    return any(n.get("kind") == "DeclRefExpr" and n["referencedDecl"]["id"] in ids for n in walk(fn))


def register(add, tu, repo):
    cache = {}

    def tus(rel):
        x = tu(rel)
        if "all_gvars" not in x:
            x["all_gvars"] = file_scope_arrays(repo, rel, x)
        return x

    def result():
        if "r" not in cache:
            cache["r"] = translate(tus)
        return cache["r"]

    def caps():
        w, _, _ = result()
        return "[" + "; ".join("%d%%N" % c for c in w.caps) + "]%list" if w.caps else "[]"

    def locs():
        w, _, _ = result()
        return "[" + "; ".join("%d%%nat" % b for b in w.locals) + "]%list"

    def progs():
        w, ps, _ = result()
        lines = ["(* buffers: " + "; ".join("%d = %s" % (i, x) for i, x in enumerate(w.where)) + " *)"]
        body = ";\n   ".join("mkfp %s (* %s:%s *)\n     %s" % (name_bytes(f), r, f, p) for r, f, p in ps)
        return lines[0] + "\n  [ " + body + " ]"

    def unm():
        _, _, u = result()
        return "(* " + "; ".join("%s:%s (%s)" % x for x in u).replace("*)", "* )") + " *)\n  [" + "; ".join(name_bytes(r + ":" + f) for r, f, _ in u) + "]"
    add("buffer_caps", "list N", caps, "char arrays of " + ", ".join(FILES))
    add("buffer_locals", "list nat", locs, "which of them are local (automatic) arrays")
    add("buffer_progs", "list fprog", progs, "the calls that write into them, per function")
    add("buffer_unmodelled", "list (list N)", unm, "functions with such arrays the translator cannot express")


def file_scope_arrays(repo, rel, tu):
    return [d for d in tu.get("gvar_decls", []) if array_cap(d) is not None]
