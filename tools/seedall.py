#!/usr/bin/env python3
"""Development aid: run every stored seeded change against the checks of its property and print
a table (seed, applies?, check exit, first violation).  Never commits anything in /repo."""
import json, os, re, subprocess, sys
ROOT = os.path.dirname(os.path.dirname(os.path.abspath(__file__)))
seeds = sorted(os.listdir(os.path.join(ROOT, "seeded")))
only = sys.argv[1:]
res = {}
for s in seeds:
    if only and s not in only:
        continue
    pid = s[:3]
    p = subprocess.run([sys.executable, os.path.join(ROOT, "tools", "seedtest.py"), s, pid], stdout=subprocess.PIPE, stderr=subprocess.STDOUT, text=True)
    out = p.stdout
    applies = "PATCH DOES NOT APPLY" not in out
    m = re.search(r"exit (\d+)", out)
    viol = [l.strip() for l in out.split("\n") if "violation [" in l or "proof obligation" in l or "model and" in l]
    res[s] = {"applies": applies, "exit": int(m.group(1)) if m else None, "first": viol[0][:200] if viol else ""}
    print(s, res[s], flush=True)
json.dump(res, open(os.path.join(ROOT, "_work", "seedall.json"), "w"), indent=1)
