#!/usr/bin/env python3
"""Maintains MANIFEST.json: register(pid, engine, text, note, technique, design_ref) moves a
property from not_applicable to checks (or updates it)."""
import json, os, sys
ROOT = os.path.dirname(os.path.dirname(os.path.abspath(__file__)))
PATH = os.path.join(ROOT, "MANIFEST.json")


def register(pid, engine, text, note, technique, design_ref, category="proof"):
    m = json.load(open(PATH))
    entry = {"property_id": pid,
             "quick_cmd": "python3 tools/vcheck.py %s --tier quick" % pid,
             "thorough_cmd": "python3 tools/vcheck.py %s --tier thorough" % pid,
             "evidence_file": "evidence/%s.json" % pid,
             "replay_cmd_template": "python3 tools/vcheck.py %s --replay {path}" % pid,
             "engine": engine,
             "level_claimed": {"category": category, "text": text, "design_ref": design_ref},
             "level_note": note, "technique": technique}
    m["checks"] = [c for c in m["checks"] if c["property_id"] != pid] + [entry]
    m["checks"].sort(key=lambda c: c["property_id"])
    m["not_applicable"] = [n for n in m.get("not_applicable", []) if n["property_id"] != pid]
    json.dump(m, open(PATH, "w"), indent=1)


def engine(name, path, serves, text):
    m = json.load(open(PATH))
    m["engines"] = [e for e in m.get("engines", []) if e["name"] != name] + [
        {"name": name, "path": path, "serves_properties": serves, "kind_free_text": text}]
    json.dump(m, open(PATH, "w"), indent=1)
