"""Translator items for C19: which failing calls on the result path are answered loudly."""
from srcfacts import Cannot, walk, body_of, strip, member_path
from srcfacts_c12 import calls_of, need
from srcfacts_c14 import exit_status_of, callee, int_const


def returns_without(fn_body, must_call):
    """is there an `if (...) return;` (or return <const>) whose branch does not call must_call and that precedes the call"""
    res = False
    for n in walk(fn_body):
        if n.get("kind") == "IfStmt":
            br = n["inner"][1]
            has_ret = any(m.get("kind") == "ReturnStmt" for m in walk(br))
            if has_ret and not calls_of(br, must_call) and not calls_of(br, "exit") and not calls_of(br, "abort") and not calls_of(br, "raise"):
                res = True
    return res


def send_can_drop(tu):
    f = tu["funs"]["send_cgreen_message"]
    need(len(calls_of(body_of(f), "cgreen_pipe_write")) == 1, "send_cgreen_message: one cgreen_pipe_write")
    allocs = calls_of(body_of(f), "malloc") + calls_of(body_of(f), "calloc")
    return "true" if allocs and returns_without(body_of(f), "cgreen_pipe_write") else "false"


def pipe_open_strict(tu):
    """every failing call in cgreen_pipe_open leads to a non-zero return: `if (x_result != 0) return x_result;`"""
    f = tu["funs"]["cgreen_pipe_open"]
    ok = True
    n_if = 0
    for n in body_of(f).get("inner", []):
        if n.get("kind") == "IfStmt":
            n_if += 1
            cond = strip(n["inner"][0])
            need(cond.get("kind") == "BinaryOperator" and cond.get("opcode") == "!=", "cgreen_pipe_open: if (result != 0)")
            var = strip(cond["inner"][0])
            while var.get("kind") == "ImplicitCastExpr":
                var = strip(var["inner"][0])
            rets = [m for m in walk(n["inner"][1]) if m.get("kind") == "ReturnStmt"]
            need(len(rets) == 1, "cgreen_pipe_open: return in the branch")
            r = strip(rets[0]["inner"][0])
            while r.get("kind") == "ImplicitCastExpr":
                r = strip(r["inner"][0])
            same = r.get("kind") == "DeclRefExpr" and var.get("kind") == "DeclRefExpr" and r["referencedDecl"]["name"] == var["referencedDecl"]["name"]
            const_nonzero = int_const(rets[0]["inner"][0]) not in (None, 0)
            ok = ok and (same or const_nonzero)
    need(n_if == 2 and len(calls_of(body_of(f), "pipe")) == 1 and len(calls_of(body_of(f), "fcntl")) == 1, "cgreen_pipe_open shape")
    return "true" if ok else "false"


def setup_aborts(tu):
    f = tu["funs"]["setup_reporting"]
    for n in walk(body_of(f)):
        if n.get("kind") == "IfStmt":
            cond = strip(n["inner"][0])
            if cond.get("kind") == "BinaryOperator" and cond.get("opcode") == "<" and (calls_of(n["inner"][1], "exit") or calls_of(n["inner"][1], "die") or calls_of(n["inner"][1], "abort")):
                ex = calls_of(n["inner"][1], "exit")
                if ex and int_const(ex[0]["inner"][1]) == 0:
                    return "false"
                return "true"
    return "false"


def start_messaging_reports(tu):
    f = tu["funs"]["start_cgreen_messaging"]
    for n in walk(body_of(f)):
        if n.get("kind") == "IfStmt":
            cond = strip(n["inner"][0])
            if cond.get("kind") == "BinaryOperator" and cond.get("opcode") == "!=":
                names = [m["referencedDecl"]["name"] for m in walk(cond) if m.get("kind") == "DeclRefExpr"]
                if "pipe_result" in names:
                    rets = [m for m in walk(n["inner"][1]) if m.get("kind") == "ReturnStmt"]
                    if rets and (int_const(rets[0]["inner"][0]) or 0) < 0 or any(m.get("kind") == "UnaryOperator" and m.get("opcode") == "-" for r in rets for m in walk(r)):
                        return "true"
    return "false"


def fork_dies(tu):
    f = tu["funs"]["in_child_process"]
    for n in walk(body_of(f)):
        if n.get("kind") == "IfStmt":
            cond = strip(n["inner"][0])
            if cond.get("kind") == "BinaryOperator" and cond.get("opcode") == "<" and calls_of(n["inner"][1], "die"):
                return "true"
    return "false"


def tmpfile_checked(tu, fn):
    f = tu["funs"][fn]
    if not calls_of(body_of(f), "tmpfile"):
        return "true"
    for n in walk(body_of(f)):
        if n.get("kind") == "IfStmt":
            names = [m["referencedDecl"]["name"] for m in walk(n["inner"][0]) if m.get("kind") == "DeclRefExpr"]
            if "child_output_tmpfile" in names and (calls_of(n["inner"][1], "exit") or calls_of(n["inner"][1], "abort")):
                return "true"
    return "false"


def register(add, tu):
    M = lambda: tu("src/messaging.c")
    add("send_can_drop_silently", "bool", lambda: send_can_drop(M()), "src/messaging.c:send_cgreen_message")
    add("pipe_open_reports_every_failure", "bool", lambda: pipe_open_strict(tu("src/posix_cgreen_pipe.c")), "src/posix_cgreen_pipe.c:cgreen_pipe_open")
    add("messaging_reports_pipe_failure", "bool", lambda: start_messaging_reports(M()), "src/messaging.c:start_cgreen_messaging")
    add("setup_aborts_without_channel", "bool", lambda: setup_aborts(tu("src/reporter.c")), "src/reporter.c:setup_reporting")
    add("fork_failure_dies", "bool", lambda: fork_dies(tu("src/posix_runner_platform.c")), "src/posix_runner_platform.c:in_child_process")
    add("tmpfile_failure_stops_run", "bool",
        lambda: "true" if tmpfile_checked(tu("src/xml_reporter.c"), "xml_reporter_start_test") == "true" and tmpfile_checked(tu("src/libxml_reporter.c"), "xml_reporter_start_test") == "true" else "false",
        "src/xml_reporter.c, src/libxml_reporter.c:xml_reporter_start_test")
