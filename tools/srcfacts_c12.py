"""Translator items for C12 (values through mocks): what is stored, loaded, copied and how
many bytes, from src/constraint.c, src/mocks.c, src/boxed_double.c and the will_* macros."""
import os, re
from srcfacts import Cannot, walk, body_of, strip, member_path
from srcfacts_more import Body

SIZEOF = {"intptr_t": 8, "long": 8, "size_t": 8, "unsigned long": 8, "void *": 8, "double": 8, "int": 4,
          "BoxedDouble": 8}


class B12(Body):
    def int_expr(self, e):
        s = strip(e)
        if s.get("kind") == "UnaryExprOrTypeTraitExpr" and s.get("name") == "sizeof":
            t = s.get("argType", {}).get("qualType")
            if t in SIZEOF:
                return "(%d)" % SIZEOF[t]
            raise Cannot("sizeof " + str(t))
        if s.get("kind") in ("ImplicitCastExpr", "CStyleCastExpr") and s.get("castKind") == "IntegralCast":
            t = s.get("type", {}).get("qualType", "")
            src = strip(s["inner"][0]).get("type", {}).get("qualType", "")
            inner = self.int_expr(s["inner"][0])
            if t in ("int", "unsigned int", "short", "char", "unsigned char") and src in ("unsigned long", "size_t", "long", "intptr_t"):
                if t != "int":
                    raise Cannot("narrowing cast to " + t)
                return "(wrap_s32 %s)" % inner
            return inner
        return Body.int_expr(self, e)


def need(c, what):
    if not c:
        raise Cannot(what)


def calls_of(node, name):
    return [n for n in walk(node) if n.get("kind") == "CallExpr" and strip(n["inner"][0]).get("kind") == "DeclRefExpr"
            and strip(n["inner"][0])["referencedDecl"]["name"] == name]


def ptr_sym(e, locals_):
    """symbolic pointer: (base symbol, offset text)"""
    e = strip(e)
    k = e.get("kind")
    if k in ("ImplicitCastExpr", "CStyleCastExpr"):
        return ptr_sym(e["inner"][0], locals_)
    if k == "DeclRefExpr":
        nm = e["referencedDecl"]["name"]
        if nm in locals_:
            return locals_[nm]
        return (nm, "(0)")
    if k == "MemberExpr":
        base, path = member_path(e)
        return (base + "." + ".".join(path), "(0)")
    if k == "UnaryOperator" and e.get("opcode") == "&":
        base, path = member_path(e["inner"][0])
        return ("&" + base + "." + ".".join(path), "(0)")
    if k == "BinaryOperator" and e.get("opcode") == "+":
        a, b = e["inner"]
        sym, off = ptr_sym(a, locals_)
        need(off == "(0)", "nested pointer offset")
        return (sym, locals_["__body"].int_expr(b))
    raise Cannot("pointer expression " + str(k))


def assigned(fn, field):
    for n in walk(body_of(fn)):
        if n.get("kind") == "BinaryOperator" and n.get("opcode") == "=":
            try:
                base, path = member_path(n["inner"][0])
            except Cannot:
                continue
            if base == "constraint" and path == [field]:
                return n["inner"][1]
    raise Cannot("assignment of constraint->" + field)


def macro(repo, name):
    txt = open(os.path.join(repo, "include/cgreen/constraint_syntax_helpers.h")).read().replace("\\\n", " ")
    m = re.search(r"#define\s+%s\(([^)]*)\)\s+(.*)" % name, txt)
    need(m, "macro " + name)
    return [a.strip() for a in m.group(1).split(",")], re.sub(r"\s+", "", m.group(2))


CASTS = {"intptr_t": "(fun v => v)", "size_t": "(fun v => v)", "int": "(fun v => wrap_s32 v)", "long": "(fun v => v)"}


def values_src(tu, repo):
    C = tu("src/constraint.c")["funs"]
    M = tu("src/mocks.c")["funs"]
    BD = tu("src/boxed_double.c")["funs"]
    # --- will_return(value) -> create_return_value_constraint((intptr_t)value)
    params, body = macro(repo, "will_return")
    m = re.fullmatch(r"create_return_value_constraint\(\((\w+)\)%s\)" % params[0], body)
    need(m and m.group(1) in CASTS, "will_return macro body " + body)
    ret_macro = CASTS[m.group(1)]
    f = C["create_return_value_constraint"]
    c = calls_of(assigned(f, "expected_value"), "make_cgreen_integer_value")
    need(len(c) == 1, "create_return_value_constraint stores make_cgreen_integer_value(...)")
    ret_store = "(fun v => %s)" % B12({"value_to_return": "v"}, {}, {}).int_expr(c[0]["inner"][1])
    # make_cgreen_integer_value itself
    V = tu("src/cgreen_value.c")["funs"]
    ok = False
    for n in walk(body_of(V["make_cgreen_integer_value"])):
        if n.get("kind") == "BinaryOperator" and n.get("opcode") == "=":
            base, path = member_path(n["inner"][0])
            if (base, path) == ("value", ["value", "integer_value"]):
                need(B12({"integer": "v"}, {}, {}).int_expr(n["inner"][1]) == "v", "make_cgreen_integer_value stores its argument")
                ok = True
    need(ok, "make_cgreen_integer_value")
    # --- mock_(): the two final returns
    rets = [n for n in body_of(M["mock_"]).get("inner", []) if n.get("kind") == "IfStmt"]
    last = rets[-1]
    need(len(last["inner"]) == 3, "mock_: if (double) ... else return")
    b = B12({"stored_result.value.integer_value": "v", "stored_result->value.integer_value": "v"}, {}, {})
    b.key = lambda e: ".".join([member_path(e)[0]] + member_path(e)[1])
    b.env_int = {"stored_result.value.integer_value": "v"}
    els = [n for n in walk(last["inner"][2]) if n.get("kind") == "ReturnStmt"]
    need(len(els) == 1, "mock_: else return")
    ret_load = "(fun v => %s)" % b.int_expr(els[0]["inner"][0])
    thn = [n for n in walk(last["inner"][1]) if n.get("kind") == "ReturnStmt"]
    need(len(thn) == 1, "mock_: double return")
    bx = calls_of(thn[0], "box_double")
    dbl_ok = len(bx) == 1
    if dbl_ok:
        base, path = member_path(bx[0]["inner"][1])
        dbl_ok = (base, path) == ("stored_result", ["value", "double_value"])
    # the early return in the name-not-found path hands back the same field (C16 looks at it)
    # boxed_double.c: box->value = value; as_double returns ->value; unbox uses as_double
    st = [n for n in walk(body_of(BD["box_double"])) if n.get("kind") == "BinaryOperator" and n.get("opcode") == "="]
    dbl_ok = dbl_ok and len(st) == 1 and member_path(st[0]["inner"][0]) == ("box", ["value"]) and \
        strip(st[0]["inner"][1]).get("kind") == "DeclRefExpr" and strip(st[0]["inner"][1])["referencedDecl"]["name"] == "value"
    r = [n for n in walk(body_of(BD["as_double"])) if n.get("kind") == "ReturnStmt"]
    dbl_ok = dbl_ok and len(r) == 1 and any(m.get("kind") == "MemberExpr" and m.get("name") == "value" for m in walk(r[0]))
    dbl_ok = dbl_ok and len(calls_of(body_of(BD["unbox_double"]), "as_double")) == 1
    f = C["create_return_double_value_constraint"]
    c = calls_of(assigned(f, "expected_value"), "make_cgreen_double_value")
    dbl_ok = dbl_ok and len(c) == 1 and strip(c[0]["inner"][1]).get("kind") == "DeclRefExpr"
    # --- by value
    f = C["create_return_by_value_constraint"]
    bb = B12({"size": "n"}, {}, {})
    mal = calls_of(body_of(f), "malloc"); cp = calls_of(body_of(f), "memcpy"); mk = calls_of(body_of(f), "make_cgreen_by_value")
    need(len(mal) == 1 and len(cp) == 1 and len(mk) == 1, "create_return_by_value_constraint shape")
    loc = {"__body": bb}
    need(ptr_sym(cp[0]["inner"][1], loc)[0] == "actual_return" and ptr_sym(cp[0]["inner"][2], loc) == ("value_to_return", "(0)") and
         ptr_sym(mk[0]["inner"][1], loc)[0] == "actual_return", "by value: copies the source into the fresh block")
    bv1 = ["(fun n => %s)" % bb.int_expr(mal[0]["inner"][1]), "(fun n => %s)" % bb.int_expr(cp[0]["inner"][3]),
           "(fun n => %s)" % bb.int_expr(mk[0]["inner"][2])]
    f = M["stored_result_or_default_for"]
    b2 = B12({}, {}, {})
    b2.key = lambda e: ".".join([member_path(e)[0]] + member_path(e)[1])
    b2.env_int = {"returnable.value_size": "n"}
    mal = calls_of(body_of(f), "malloc"); cp = calls_of(body_of(f), "memcpy")
    need(len(mal) == 1 and len(cp) == 1, "stored_result_or_default_for shape")
    loc = {"__body": b2}
    need(ptr_sym(cp[0]["inner"][1], loc)[0] == "the_struct" and ptr_sym(cp[0]["inner"][2], loc)[0] == "returnable.value.pointer_value",
         "stored result: copies the stored block into the fresh block")
    bv2 = ["(fun n => %s)" % b2.int_expr(mal[0]["inner"][1]), "(fun n => %s)" % b2.int_expr(cp[0]["inner"][3])]
    # --- set contents
    params, body = macro(repo, "will_set_contents_of_output_parameter")
    m = re.fullmatch(r"create_set_parameter_value_constraint\(#%s,\(intptr_t\)%s,\((\w+)\)%s\)" % tuple(params), body)
    need(m and m.group(1) in CASTS, "will_set_contents_of_output_parameter macro body " + body)
    params2, body2 = macro(repo, "will_set_contents_of_parameter")
    need(body2 == body.replace(params[0], params2[0]).replace(params[1], params2[1]).replace(params[2], params2[2]) or body2 == body,
         "the two will_set_contents macros differ")
    set_macro = CASTS[m.group(1)]
    f = C["create_set_parameter_value_constraint"]
    set_store = "(fun n => %s)" % B12({"size_to_set": "n"}, {}, {}).int_expr(assigned(f, "size_of_expected_value"))
    c = calls_of(assigned(f, "expected_value"), "make_cgreen_integer_value")
    need(len(c) == 1 and B12({"value_to_set": "v"}, {}, {}).int_expr(c[0]["inner"][1]) == "v", "setter stores the source pointer")
    f = C["set_contents"]
    mm = calls_of(body_of(f), "memmove") + calls_of(body_of(f), "memcpy")
    need(len(mm) == 1, "set_contents: one memmove")
    bs = B12({"constraint->size_of_expected_value": "n"}, {}, {})
    loc = {"__body": bs}
    dst, src = ptr_sym(mm[0]["inner"][1], loc), ptr_sym(mm[0]["inner"][2], loc)
    set_dst = "true" if dst == ("actual.value.pointer_value", "(0)") else "false"
    set_src = "true" if src == ("constraint.expected_value.value.pointer_value", "(0)") else "false"
    set_len = "(fun n => %s)" % bs.int_expr(mm[0]["inner"][3])
    # --- capture
    params, body = macro(repo, "will_capture_parameter")
    need(body == "create_capture_parameter_constraint(#%s,&%s,sizeof(%s))" % (params[0], params[1], params[1]),
         "will_capture_parameter macro body " + body)
    f = C["create_capture_parameter_constraint"]
    cap_store = "(fun n => %s)" % B12({"size_to_capture": "n"}, {}, {}).int_expr(assigned(f, "size_of_expected_value"))
    f = C["capture_parameter"]
    ifs = [n for n in body_of(f).get("inner", []) if n.get("kind") == "IfStmt"]
    need(len(ifs) == 1 and len(ifs[0]["inner"]) == 3, "capture_parameter: if/else")
    bc = B12({"constraint->size_of_expected_value": "n"}, {}, {"bigendian": lambda b, a: "(if be then 1 else 0)"})
    use_off = "(fun n be => %s)" % bc.bool_expr(ifs[0]["inner"][0])
    loc = {"__body": bc}
    offset = None
    for d in walk(ifs[0]["inner"][1]):
        if d.get("kind") == "VarDecl" and d.get("inner"):
            if d["name"] == "offset":
                offset = bc.int_expr(d["inner"][0])
                bc.env_int["offset"] = "off"
            elif d["name"] == "start_address":
                loc["start_address"] = ptr_sym(d["inner"][0], loc)
    need(offset is not None and "start_address" in loc, "capture_parameter: offset / start_address")
    m1 = calls_of(ifs[0]["inner"][1], "memmove"); m2 = calls_of(ifs[0]["inner"][2], "memmove")
    need(len(m1) == 1 and len(m2) == 1, "capture_parameter: one memmove per branch")
    need(ptr_sym(m1[0]["inner"][1], loc) == ("constraint.expected_value.value.pointer_value", "(0)") and
         ptr_sym(m2[0]["inner"][1], loc) == ("constraint.expected_value.value.pointer_value", "(0)"), "capture: destination is the variable")
    need(ptr_sym(m1[0]["inner"][2], loc) == ("&actual.value", "off") and ptr_sym(m2[0]["inner"][2], loc) == ("&actual.value", "(0)"),
         "capture: source is the actual's union (+ offset)")
    cap_off = "(fun n => %s)" % offset
    cap_len1 = "(fun n => %s)" % bc.int_expr(m1[0]["inner"][3])
    cap_len2 = "(fun n => %s)" % bc.int_expr(m2[0]["inner"][3])
    return ("mkvalsrc %s %s %s %s\n    %s %s %s %s %s\n    %s %s %s %s %s\n    %s %s %s %s %s" % (
        ret_macro, ret_store, ret_load, "true" if dbl_ok else "false",
        bv1[0], bv1[1], bv1[2], bv2[0], bv2[1],
        set_macro, set_store, set_len, set_dst, set_src,
        cap_store, use_off, cap_off, cap_len1, cap_len2))


def register(add, tu, repo):
    add("values_src", "valsrc", lambda: values_src(tu, repo), "src/constraint.c, src/mocks.c, src/boxed_double.c, constraint_syntax_helpers.h")
