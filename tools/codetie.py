"""Tie between the translated functions (coq/Gen/Code.v, run by the extracted CLite interpreter)
and the hand-written models, on concrete inputs.

The theorems of Properties_Code_*.v say the translated code computes what the model computes for
every input.  This module (1) cross-checks that statement on enumerated inputs on every run (it
validates the interpreter, the statement and the extraction glue), and (2) when the source was
changed so that the proof no longer checks, it is the search for a concrete failing input: every
input on which translated code and model differ is turned into a scenario for the real
implementation, which the property's own oracles then judge."""
import itertools
import vlib
import layerc as L


def _pipes(maxlen):
    for n in range(0, maxlen + 1):
        for p in itertools.product("12345", repeat=n):
            yield "".join(p)


def reporter_diffs(chk, maxlen):
    """pipes (strings over 1 pass, 2 fail, 3 skipped, 4 completion, 5 exception) on which a translated
    function of src/reporter.c and the runner model disagree: [(pipe, function, code vector, model vector)]"""
    pipes = list(_pipes(maxlen))
    lines = ["(reporter %s 0 0 0 0)" % (p or "-") for p in pipes]
    lines += ["(reporter %s 5 7 1 2)" % (p or "-") for p in pipes if len(p) <= 4]
    pipes2 = pipes + [p for p in pipes if len(p) <= 4]
    out = vlib.run_model("code", lines)
    diffs = []
    for p, o in zip(pipes2, out):
        for part in o.split(" ; "):
            fn, rest = part.split(" ", 1)
            code, model = [x.strip() for x in rest.split("|")]
            if code != model:
                diffs.append((p, fn, code, model))
    chk.count("code-tie:reporter-pipes", len(lines))
    chk.count("code-tie:reporter-functions", 3 * len(lines))
    return diffs


def scenario_of_pipe(pipe):
    """a suite whose tests send exactly these records (None when the pipe needs an exception
    record, which test code cannot send): records up to each completion notice are one test; a last
    segment without a completion notice is a test that dies"""
    if "5" in pipe:
        return None
    segs = pipe.split("4")
    tests = []
    for i, seg in enumerate(segs):
        last = i == len(segs) - 1
        if last and seg == "":
            break
        body = [{"1": ("c", 1), "2": ("c", 0), "3": ("skip",)}[c] for c in seg]
        if last:
            body.append(("die", "sig", 11))
        tests.append(L.Test(len(tests), body=body))
    if not tests:
        return None
    tests.append(L.Test(len(tests), body=[("c", 1)]))     # a plain neighbour after them
    return L.Suite(0, children=tests)


def reporter_cases(chk, reporters=("text", "cute", "xml"), modes=("forked",)):
    """Cross-check on every run; when translated code and model differ, the scenarios that carry
    the difference to the real implementation (added to the check's own case list)."""
    maxlen = 5 if chk.tier == "quick" else 7
    diffs = reporter_diffs(chk, maxlen)
    cases = []
    if diffs:
        diffs.sort(key=lambda d: (len(d[0]), d[0]))
        seen = set()
        for pipe, fn, code, model in diffs:
            if pipe in seen:
                continue
            seen.add(pipe)
            if len(seen) <= 3:
                chk.disagreement("translated %s differs from the model on the pipe %s: code %s, model %s" % (
                    {"read": "read_reporter_results()", "ftest": "reporter_finish_test()", "fsuite": "reporter_finish_suite()"}[fn],
                    pipe or "(empty)", code, model),
                    {"pipe": pipe, "function": fn, "code": code, "model": model,
                     "how": "printf '(reporter %s 0 0 0 0)\\n' | ocaml/driver code" % (pipe or "-")})
            root = scenario_of_pipe(pipe)
            if root is not None and len(cases) < 12 * len(reporters):
                for rep in reporters:
                    for m in modes:
                        cases.append((root, rep, m))
        chk.count("code-tie:reporter-differences", len(diffs))
    return cases
