"""Tie between the translated functions (coq/Gen/Code.v, run by the extracted CLite interpreter)
and the hand-written models, on concrete inputs.

The theorems of Properties_Code_*.v say the translated code computes what the model computes for
every input.  This module (1) cross-checks that statement on enumerated inputs on every run (it
validates the interpreter, the statement and the extraction glue), and (2) when the source was
changed so that the proof no longer checks, it is the search for a concrete failing input: every
input on which translated code and model differ is turned into a scenario for the real
implementation, which the property's own oracles then judge."""
import itertools
import vlib
import layerc as L


def _pipes(maxlen):
    for n in range(0, maxlen + 1):
        for p in itertools.product("12345", repeat=n):
            yield "".join(p)


def reporter_diffs(chk, maxlen):
    """pipes (strings over 1 pass, 2 fail, 3 skipped, 4 completion, 5 exception) on which a translated
    function of src/reporter.c and the runner model disagree: [(pipe, function, code vector, model vector)]"""
    pipes = list(_pipes(maxlen))
    lines = ["(reporter %s 0 0 0 0)" % (p or "-") for p in pipes]
    lines += ["(reporter %s 5 7 1 2)" % (p or "-") for p in pipes if len(p) <= 4]
    pipes2 = pipes + [p for p in pipes if len(p) <= 4]
    out = vlib.run_model("code", lines)
    diffs = []
    for p, o in zip(pipes2, out):
        for part in o.split(" ; "):
            fn, rest = part.split(" ", 1)
            code, model = [x.strip() for x in rest.split("|")]
            if code != model:
                diffs.append((p, fn, code, model))
    chk.count("code-tie:reporter-pipes", len(lines))
    chk.count("code-tie:reporter-functions", 3 * len(lines))
    return diffs


def scenario_of_pipe(pipe):
    """a suite whose tests send exactly these records (None when the pipe needs an exception
    record, which test code cannot send): records up to each completion notice are one test; a last
    segment without a completion notice is a test that dies"""
    if "5" in pipe:
        return None
    segs = pipe.split("4")
    tests = []
    for i, seg in enumerate(segs):
        last = i == len(segs) - 1
        if last and seg == "":
            break
        body = [{"1": ("c", 1), "2": ("c", 0), "3": ("skip",)}[c] for c in seg]
        if last:
            body.append(("die", "sig", 11))
        tests.append(L.Test(len(tests), body=body))
    if not tests:
        return None
    tests.append(L.Test(len(tests), body=[("c", 1)]))     # a plain neighbour after them
    return L.Suite(0, children=tests)


def reporter_cases(chk, reporters=("text", "cute", "xml"), modes=("forked",)):
    """Cross-check on every run; when translated code and model differ, the scenarios that carry
    the difference to the real implementation (added to the check's own case list)."""
    maxlen = 5 if chk.tier == "quick" else 7
    diffs = reporter_diffs(chk, maxlen)
    cases = []
    if diffs:
        diffs.sort(key=lambda d: (len(d[0]), d[0]))
        seen = set()
        for pipe, fn, code, model in diffs:
            if pipe in seen:
                continue
            seen.add(pipe)
            if len(seen) <= 3:
                chk.disagreement("translated %s differs from the model on the pipe %s: code %s, model %s" % (
                    {"read": "read_reporter_results()", "ftest": "reporter_finish_test()", "fsuite": "reporter_finish_suite()"}[fn],
                    pipe or "(empty)", code, model),
                    {"pipe": pipe, "function": fn, "code": code, "model": model,
                     "how": "printf '(reporter %s 0 0 0 0)\\n' | ocaml/driver code" % (pipe or "-")})
            root = scenario_of_pipe(pipe)
            if root is not None and len(cases) < 12 * len(reporters):
                for rep in reporters:
                    for m in modes:
                        cases.append((root, rep, m))
        chk.count("code-tie:reporter-differences", len(diffs))
    return cases


# ------------------------------------------------------------------------------------------
# the other translated programs: enumerated inputs, translated code (interpreter) against the model
# ------------------------------------------------------------------------------------------
def _hex(b):
    return b.hex() if b else "-"


def _run_pairs(chk, lines, tag):
    """-> [(case index, part name, code, model)] where they differ"""
    out = vlib.run_model("code", lines)
    diffs = []
    nparts = 0
    for i, o in enumerate(out):
        for part in o.split(" ; "):
            nparts += 1
            name, rest = part.split(" ", 1)
            code, model = [x.strip() for x in rest.split("|")]
            if code != model:
                diffs.append((i, name, code, model))
    chk.count("code-tie:%s-inputs" % tag, len(lines))
    chk.count("code-tie:%s-comparisons" % tag, nparts)
    if diffs:
        chk.count("code-tie:%s-differences" % tag, len(diffs))
    return diffs


def _strings(alphabet, maxlen):
    for n in range(maxlen + 1):
        for t in itertools.product(alphabet, repeat=n):
            yield bytes(t)


def string_function(chk, which, inputs, what):
    """which: percent | xmlesc | names.  Returns the input strings on which translated code and model differ
    (shortest first); each of the first few is recorded as a disagreement."""
    inputs = list(dict.fromkeys(inputs))
    diffs = _run_pairs(chk, ["(str %s %s)" % (which, _hex(b)) for b in inputs], which)
    bad = sorted({inputs[i] for i, _, _, _ in diffs}, key=lambda b: (len(b), b))
    for i, name, code, model in sorted(diffs, key=lambda d: (len(inputs[d[0]]), inputs[d[0]]))[:3]:
        chk.disagreement("translated %s differs from the model on %r: code %s, model %s" % (what, inputs[i], code[:200], model[:200]),
                         {"input_hex": _hex(inputs[i]), "function": what, "code": code, "model": model,
                          "how": "printf '(str %s %s)\\n' | ocaml/driver code" % (which, _hex(inputs[i]))})
    return bad


def percent_inputs(chk):
    ins = list(_strings(b"%a", 7 if chk.tier == "quick" else 10))
    ins += list(_strings(b"%s\x80 ", 4))
    for _ in range(50 if chk.tier == "quick" else 400):
        n = chk.rng.choice([8, 17, 64, 255, 256, 257, 1000])
        ins.append(bytes(chk.rng.choice(b"%%%abc d\xff") for _ in range(n)))
    return ins


def xmlesc_inputs(chk):
    ins = [bytes([b]) for b in range(1, 256)]                       # every byte value
    special = b"\"&<>'\t\n\r\x01\x0b\x0c\x1f \x7f\x80a"
    ins += list(_strings(special, 2))
    ins += [bytes([b, 97, b]) for b in range(1, 256)]
    # (the interpreter's memory is a list: a text of n characters costs about n^2 steps through realloc/strcat)
    for _ in range(30 if chk.tier == "quick" else 300):
        n = chk.rng.choice([3, 10, 100, 999, 1000, 1001])
        ins.append(bytes(chk.rng.choice(special + b"abc") for _ in range(n)))
    return ins


def names_inputs(chk, extra=()):
    ins = list(_strings(b"a, (", 5 if chk.tier == "quick" else 7))
    ins += list(_strings(b"ad()\t", 4))
    toks = [b"a", b"ab", b"d", b"box_double", b"box_double(x)", b"box_double( y )", b"box_double (z)", b"d(w)", b"(", b")", b",", b" ", b", ", b"\n"]
    for _ in range(300 if chk.tier == "quick" else 20000):
        ins.append(b"".join(chk.rng.choice(toks) for _ in range(chk.rng.choice([1, 2, 3, 5, 8]))))
    ins += list(extra)
    return [b for b in ins if 0 not in b]


def matches(chk):
    """test_matches_pattern(): patterns over {a, b, *, :} against contexts and names over {a, b}"""
    pats = [p for p in _strings(b"ab*:", 4 if chk.tier == "quick" else 5)]
    pats += [b"*a*b", b"a*:*ab", b"*:*_1_2", b"*ss", b"*aab", b"a*ab", b"*abab"]
    words = [w for w in _strings(b"ab", 3)] + [b"aab", b"aaab", b"abab", b"ababab", b"adds_1_1_2", b"passs", b"default"]
    cases = []
    for p in pats:
        for c in (b"a", b"ab", b"default", b"aab"):
            for n in (words if len(p) <= 3 or b"*" in p else words[:6]):
                cases.append((p, c, n))
    if chk.tier == "quick":
        cases = cases[::3] + [c for c in cases if c[0] in (b"*:*_1_2", b"*ss", b"*aab", b"a*ab", b"*abab", b"*a*b", b"a*:*ab")]
    diffs = _run_pairs(chk, ["(match %s %s %s)" % (_hex(p), _hex(c), _hex(n)) for p, c, n in cases], "matches")
    bad = []
    for i, name, code, model in diffs:
        bad.append(cases[i])
    for p, c, n in bad[:3]:
        chk.disagreement("translated test_matches_pattern() differs from the model: pattern %r, context %r, test %r" % (p, c, n),
                         {"pattern": p.decode("latin-1"), "context": c.decode("latin-1"), "name": n.decode("latin-1"),
                          "how": "printf '(match %s %s %s)\\n' | ocaml/driver code" % (_hex(p), _hex(c), _hex(n))})
    return bad


def mocks_queue(chk, unlimited):
    """the queue functions of src/mocks.c on every queue of up to 3 (quick) / 4 entries over two functions and the
    four kinds of time-to-live, for a function that is / is not in the queue"""
    kinds = [(f, ttl, trig) for f in (0, 1) for ttl, trig in ((1, 0), (2, 1), (unlimited, 0), (-unlimited, 0), (-unlimited, 2))]
    maxlen = 3 if chk.tier == "quick" else 4
    lines, meta = [], []
    for n in range(maxlen + 1):
        for t in itertools.product(kinds, repeat=n):
            q = " ".join("(%d %d %d 0 %d)" % (f, i + 1, ttl, trig) for i, (f, ttl, trig) in enumerate(t))
            for f in (0, 1, 2):
                lines.append("(mocks %d %d (%s))" % (unlimited, f, q))
                meta.append((t, f))
    for l in ([], [0], [1, 0], [0, 0, 2], [3, 1, 3]):
        for f in (0, 1, 2, 3):
            lines.append("(succ %d %d (%s))" % (unlimited, f, " ".join(map(str, l))))
            meta.append((("succ", tuple(l)), f))
    # declarations and the tally on queues whose entries have their constraints
    ekinds = []
    for f in (0, 1):
        ekinds += [(f, 1, 0, 0, "()"), (f, 2, 1, 1, "((t 2))"), (f, 3, 3, 0, "((t 3) (r 7))"), (f, 1, 0, 0, "((r 5))"),
                   (f, unlimited, 0, 4, "()"), (f, -unlimited, 0, 0, "()"), (f, -unlimited, 0, 2, "((t 0))")]
    decls = ["()", "((t 0))", "((t 2))", "((r 5))", "((t 1) (t 3))", "((p 0 4) (t -1))"]
    for n in range(0, (2 if chk.tier == "quick" else 3) + 1):
        for t in itertools.product(ekinds, repeat=n):
            q = " ".join("(%d %d %d %d %d %s)" % (f, i + 1, ttl, called, trig, cs) for i, (f, ttl, called, trig, cs) in enumerate(t))
            lines.append("(tally %d (%s))" % (unlimited, q)); meta.append((t, "tally"))
            if n <= 2:
                for kind in (0, 1, 2):
                    for f in (0, 1, 2):
                        for cs in (decls if n <= 1 or chk.tier == "thorough" else decls[:3]):
                            lines.append("(decl %d %d %d 9 %s (%s))" % (kind, unlimited, f, cs, q)); meta.append((t, f))
    diffs = _run_pairs(chk, lines, "mocks")
    for i, name, code, model in diffs[:3]:
        chk.disagreement("translated %s of src/mocks.c differs from Mocks.v on the case %s: code %s, model %s" % (
            name, lines[i][:300], code[:160], model[:160]),
            {"case": lines[i], "function": name, "code": code, "model": model, "how": "printf '%s\\n' | ocaml/driver code" % lines[i]})
    return [(meta[i], name) for i, name, _, _ in diffs]


# ------------------------------------------------------------------------------------------
# the walk over the suite tree (run_every_test / run_named_test translated from src/runner.c + src/suite.c)
# ------------------------------------------------------------------------------------------
def _shapes(n):
    """every ordered forest with n nodes, a node being a test ('t') or a suite (the list of its children)"""
    if n == 0:
        yield []
        return
    for first in range(1, n + 1):           # size of the first tree of the forest
        for rest in _shapes(n - first):
            if first == 1:
                yield ["t"] + rest
            for kids in _shapes(first - 1):
                yield [kids] + rest


def walk_trees(chk):
    """all trees whose root suite has up to 4 (quick) / 5 nodes below it"""
    maxn = 4 if chk.tier == "quick" else 5
    return [forest for n in range(0, maxn + 1) for forest in _shapes(n)]


def _flat(f):
    for x in f:
        yield x
        if isinstance(x, list):
            yield from _flat(x)


def _to_nodes(forest, ctr, flags, shared):
    out = []
    for x in forest:
        if x == "t":
            ctr["t"] += 1
            tid = 1 if (shared and ctr["t"] in (1, 3)) else ctr["t"]       # the same test registered twice
            out.append(L.Test(tid, body=[("c", 1)]))
        else:
            ctr["s"] += 1
            sid = ctr["s"]
            s = L.Suite(sid, has_setup=bool(flags >> (2 * sid % 6) & 1), has_teardown=bool(flags >> ((2 * sid + 1) % 6) & 1))
            s.children = _to_nodes(x, ctr, flags, shared)
            out.append(s)
    return out


def walk(chk):
    """translated run_every_test() / run_named_test() against the order of events of Runner.run_node / run_named"""
    lines, meta = [], []
    for forest in walk_trees(chk):
        for flags in ((0, 0b111111, 0b011010) if chk.tier == "quick" else (0, 0b111111, 0b011010, 0b100101, 0b000110)):
            for shared in (False, True):
                ctr = {"t": 0, "s": 0}
                root = L.Suite(0, has_setup=bool(flags & 1), has_teardown=bool(flags & 2))
                root.children = _to_nodes(forest, ctr, flags, shared)
                sx = L.node_sexp(root)
                if not shared:
                    lines.append("(walk forked %s)" % sx); meta.append(root)
                    lines.append("(walk inproc %s)" % sx); meta.append(root)
                for k in sorted({t.tid for s, t in root.tests()} | {99})[:3]:
                    lines.append("(walk-named %d %s)" % (k, sx)); meta.append(root)
    diffs = _run_pairs(chk, lines, "walk")
    for i, name, code, model in diffs[:3]:
        chk.disagreement("translated %s differs from the runner model in the order of suite starts, fixtures, tests and suite ends on the tree %s: code %s, model %s" % (
            "run_every_test()" if name == "walk" else "run_named_test()", L.node_sexp(meta[i])[:300], code[:200], model[:200]),
            {"case": lines[i], "code": code, "model": model, "how": "printf '%s\\n' | ocaml/driver code" % lines[i][:2000]})
    return [(lines[i], meta[i]) for i, _, _, _ in diffs]
