"""Translator: /repo's current C sources -> coq/Gen/Facts.v.

Uses clang's typed JSON AST (implicit casts explicit).  Deliberately restricted to tables,
constants and loop-free expressions (see DESIGN.md section 4.1).  Every item is translated
independently; an item the translator cannot parse falls back to the pinned text of the last
committed run (coq/Pinned/facts.json) and is reported as "pinned" so that the correspondence
check alone carries the tie for it.
"""
import json, os, re, subprocess, sys

CLANG_INC = None


class Cannot(Exception):
    pass


# ------------------------------------------------------------------------------------------
def load_tu(repo, rel, bdir):
    """Parse one translation unit; return {function name: FunctionDecl-with-body}, plus enums,
    global variable initialisers."""
    cmd = ["clang", "-fsyntax-only", "-w", "-Xclang", "-ast-dump=json",
           "-I" + os.path.join(repo, "include"), "-I" + repo, "-I" + os.path.join(repo, "src"),
           "-I" + os.path.join(repo, "tools"), "-I/usr/include/libxml2",
           "-I" + bdir, "-DHAVE_LIBXML2_REPORTER=1", "-DHAVE_XML_REPORTER=1", '-DVERSION="x"',
           "-D_REENTRANT", "-D_XOPEN_SOURCE", "-D_XOPEN_SOURCE_EXTENDED", "-D__STDC_FORMAT_MACROS",
           '-DFILENAME="%s"' % rel, '-DNM_EXECUTABLE="nm"', "-D_GNU_SOURCE",
           os.path.join(repo, rel)]
    p = subprocess.run(cmd, stdout=subprocess.PIPE, stderr=subprocess.DEVNULL, timeout=120)
    if p.returncode != 0 or not p.stdout:
        raise Cannot("clang could not parse " + rel)
    tu = json.loads(p.stdout)
    funs, enums, gvars, gvar_decls, typedefs = {}, {}, {}, [], {}
    for d in tu.get("inner", []):
        k = d.get("kind")
        if k == "VarDecl":
            gvar_decls.append(d)
        if k == "TypedefDecl" and "name" in d:
            typedefs[d["name"]] = (d.get("type") or {}).get("qualType", "")
        if k == "FunctionDecl" and any(c.get("kind") == "CompoundStmt" for c in d.get("inner", [])):
            funs[d["name"]] = d
        elif k == "EnumDecl":
            val = -1
            for c in d.get("inner", []):
                if c.get("kind") == "EnumConstantDecl":
                    v = const_value(c)
                    val = v if v is not None else val + 1
                    enums[c["name"]] = val
        elif k == "VarDecl" and d.get("inner"):
            gvars[d["name"]] = d
    return {"funs": funs, "enums": enums, "gvars": gvars, "gvar_decls": gvar_decls, "typedefs": typedefs, "rel": rel}


def const_value(node):
    """Integer value of a constant expression subtree when clang evaluated it."""
    for c in node.get("inner", []):
        if c.get("kind") == "ConstantExpr" and "value" in c:
            return int(c["value"])
        if c.get("kind") == "IntegerLiteral":
            return int(c["value"])
        v = const_value(c)
        if v is not None:
            return v
    return None


def body_of(fn):
    for c in fn.get("inner", []):
        if c.get("kind") == "CompoundStmt":
            return c
    raise Cannot("no body")


def walk(node):
    yield node
    for c in node.get("inner", []) or []:
        if isinstance(c, dict):
            yield from walk(c)


def strip(e):
    """Drop parentheses and value-preserving implicit casts."""
    while True:
        k = e.get("kind")
        if k == "ParenExpr":
            e = e["inner"][0]
        elif k == "ImplicitCastExpr" and e.get("castKind") in (
                "LValueToRValue", "NoOp", "FunctionToPointerDecay", "ArrayToPointerDecay",
                "IntegralCast_same"):
            e = e["inner"][0]
        elif k == "ConstantExpr":
            e = e["inner"][0]
        else:
            return e


def member_path(e):
    """reporter->total_failures  ->  ('reporter', ['total_failures'])"""
    e = strip(e)
    path = []
    while e.get("kind") == "MemberExpr":
        path.insert(0, e["name"])
        e = strip(e["inner"][0])
    if e.get("kind") == "DeclRefExpr":
        return e["referencedDecl"]["name"], path
    raise Cannot("not a member path")


def is_int_lit(e, v=None):
    e = strip(e)
    if e.get("kind") == "ImplicitCastExpr":
        e = strip(e["inner"][0])
    if e.get("kind") == "IntegerLiteral":
        return v is None or int(e["value"]) == v
    return False


# ------------------------------------------------------------------------------------------
# expression translation (restricted subset) to Gallina over Z / bool
# ------------------------------------------------------------------------------------------
def expr_bool(e, env):
    """Translate a C condition to a Gallina bool."""
    e0 = e
    e = strip(e)
    k = e.get("kind")
    if k == "ImplicitCastExpr" and e.get("castKind") in ("IntegralCast", "IntegralToBoolean"):
        return expr_bool(e["inner"][0], env)
    if k == "BinaryOperator":
        op = e["opcode"]
        a, b = e["inner"]
        if op == "&&":
            return "(%s && %s)" % (expr_bool(a, env), expr_bool(b, env))
        if op == "||":
            return "(%s || %s)" % (expr_bool(a, env), expr_bool(b, env))
        cmpops = {"==": "=?", "<": "<?", "<=": "<=?", ">": ">?", ">=": ">=?"}
        if op in cmpops:
            return "(%s %s %s)" % (expr_int(a, env), cmpops[op], expr_int(b, env))
        if op == "!=":
            return "(negb (%s =? %s))" % (expr_int(a, env), expr_int(b, env))
    if k == "UnaryOperator" and e.get("opcode") == "!":
        return "(negb %s)" % expr_bool(e["inner"][0], env)
    # an integer used as a condition
    return "(negb (%s =? 0))" % expr_int(e0, env)


def expr_int(e, env):
    e = strip(e)
    k = e.get("kind")
    if k == "IntegerLiteral":
        return "(%s)" % e["value"]
    if k == "ImplicitCastExpr" and e.get("castKind") == "IntegralCast":
        # widening casts of values that are in range are the identity on Z
        return expr_int(e["inner"][0], env)
    if k in ("DeclRefExpr", "MemberExpr"):
        base, path = member_path(e)
        key = base + ("->" + ".".join(path) if path else "")
        if key in env:
            return env[key]
        raise Cannot("unknown variable " + key)
    if k == "UnaryOperator" and e.get("opcode") == "-":
        return "(- %s)" % expr_int(e["inner"][0], env)
    if k == "BinaryOperator" and e["opcode"] in ("+", "-", "*"):
        a, b = e["inner"]
        return "(%s %s %s)" % (expr_int(a, env), e["opcode"], expr_int(b, env))
    if k == "ConditionalOperator":
        c, a, b = e["inner"]
        return "(if %s then %s else %s)" % (expr_bool(c, env), expr_int(a, env), expr_int(b, env))
    if k == "BinaryOperator" or (k == "UnaryOperator" and e.get("opcode") == "!"):
        return "(if %s then 1 else 0)" % expr_bool(e, env)
    raise Cannot("expression kind " + str(k))


# ------------------------------------------------------------------------------------------
# items
# ------------------------------------------------------------------------------------------
COUNTERS = ["passes", "failures", "skips", "exceptions"]


def item_verdict(tu, fname):
    """`success = <expr over reporter->total_*>; return success ? EXIT_SUCCESS : EXIT_FAILURE;`
    -> Gallina function of (tf te) giving true when the returned status is 0."""
    fn = tu["funs"][fname]
    env = {"reporter->total_failures": "tf", "reporter->total_exceptions": "te",
           "reporter->total_passes": "tp", "reporter->total_skips": "ts"}
    success = None
    ret = None
    for n in walk(body_of(fn)):
        if n.get("kind") == "BinaryOperator" and n.get("opcode") == "=":
            lhs = strip(n["inner"][0])
            if lhs.get("kind") == "DeclRefExpr" and lhs["referencedDecl"]["name"] == "success":
                success = expr_bool(n["inner"][1], env)
        if n.get("kind") == "VarDecl" and n.get("name") == "success" and n.get("inner"):
            success = expr_bool(n["inner"][0], env)
        if n.get("kind") == "ReturnStmt":
            ret = n["inner"][0]
    if success is None or ret is None:
        raise Cannot("verdict shape")
    status = expr_int(ret, {"success": "(if %s then 1 else 0)" % success})
    return "fun (tp tf ts te : Z) => (%s =? 0)" % status


def reporter_slots(tu, create_fn):
    """reporter->start_suite = &fn;  in create_*_reporter."""
    slots = {}
    for n in walk(body_of(tu["funs"][create_fn])):
        if n.get("kind") == "BinaryOperator" and n.get("opcode") == "=":
            try:
                base, path = member_path(n["inner"][0])
            except Cannot:
                continue
            if base == "reporter" and len(path) == 1:
                for m in walk(n["inner"][1]):
                    if m.get("kind") == "DeclRefExpr" and m["referencedDecl"].get("kind") == "FunctionDecl":
                        slots[path[0]] = m["referencedDecl"]["name"]
    return slots


def item_rkind(tu, create_fn):
    slots = reporter_slots(tu, create_fn)
    ss, fs = slots.get("start_suite"), slots.get("finish_suite")
    if not ss or not fs or ss not in tu["funs"] or fs not in tu["funs"]:
        raise Cannot("reporter slots of " + create_fn)
    resets = set()
    for n in walk(body_of(tu["funs"][ss])):
        if n.get("kind") in ("BinaryOperator", "CompoundAssignOperator") and n.get("opcode", "").endswith("="):
            if n["opcode"] in ("==", "!=", "<=", ">="):
                continue
            try:
                base, path = member_path(n["inner"][0])
            except Cannot:
                continue
            if base == "reporter" and len(path) == 1 and path[0] in COUNTERS:
                if n["opcode"] == "=" and is_int_lit(n["inner"][1], 0):
                    resets.add(path[0])
                else:
                    raise Cannot("unusual counter assignment in " + ss)
    if resets and resets != set(COUNTERS):
        raise Cannot("partial reset in %s: %s" % (ss, sorted(resets)))
    folds = set()
    via = None
    for n in walk(body_of(tu["funs"][fs])):
        kind = n.get("kind")
        if kind in ("BinaryOperator", "CompoundAssignOperator") and n.get("opcode") in ("=", "+=", "-=", "*="):
            try:
                base, path = member_path(n["inner"][0])
            except Cannot:
                continue
            if base == "reporter" and len(path) == 1 and (path[0].startswith("total_") or path[0] in COUNTERS):
                f = path[0]
                if f in ("total_duration", "duration"):
                    continue
                ok = False
                if n["opcode"] == "+=" and f.startswith("total_") and f[6:] in COUNTERS:
                    try:
                        b2, p2 = member_path(n["inner"][1])
                        ok = (b2 == "reporter" and p2 == [f[6:]])
                    except Cannot:
                        ok = False
                if not ok:
                    raise Cannot("unusual total assignment in " + fs)
                folds.add(f[6:])
        if kind == "CallExpr":
            callee = strip(n["inner"][0])
            if callee.get("kind") == "DeclRefExpr":
                nm = callee["referencedDecl"]["name"]
                if nm in ("reporter_finish_suite", "reporter_finish_test"):
                    if via is not None:
                        raise Cannot("two base finish calls in " + fs)
                    via = nm
    if via is None:
        raise Cannot("no base finish call in " + fs)
    b = lambda x: "true" if x else "false"
    return "mkrk %s %s %s %s %s %s" % (b(bool(resets)), b("passes" in folds), b("failures" in folds),
                                       b("skips" in folds), b("exceptions" in folds),
                                       b(via == "reporter_finish_test"))


def item_enum_list(tu, names):
    vals = []
    for n in names:
        if n not in tu["enums"]:
            raise Cannot("enum constant " + n)
        vals.append(str(tu["enums"][n]))
    return "[" + "; ".join(vals) + "]%Z"


# ------------------------------------------------------------------------------------------
def build_items(repo, bdir):
    """Returns list of (name, type, thunk) in output order."""
    tus = {}

    def tu(rel):
        if rel not in tus:
            tus[rel] = load_tu(repo, rel, bdir)
        return tus[rel]

    items = []
    add = lambda name, typ, f, src: items.append((name, typ, f, src))
    add("verdict_suite", "Z -> Z -> Z -> Z -> bool",
        lambda: item_verdict(tu("src/runner.c"), "run_test_suite"), "src/runner.c:run_test_suite")
    add("verdict_single", "Z -> Z -> Z -> Z -> bool",
        lambda: item_verdict(tu("src/runner.c"), "run_single_test"), "src/runner.c:run_single_test")
    for nm, rel, cf in (("text", "src/text_reporter.c", "create_text_reporter"),
                        ("cute", "src/cute_reporter.c", "create_cute_reporter"),
                        ("xml", "src/xml_reporter.c", "create_xml_reporter"),
                        ("libxml", "src/libxml_reporter.c", "create_libxml_reporter"),
                        ("cdash", "src/cdash_reporter.c", "create_cdash_reporter")):
        add("rk_" + nm, "rkind", (lambda rel=rel, cf=cf: item_rkind(tu(rel), cf)), rel + ":" + cf)
    add("msg_codes", "list Z",
        lambda: item_enum_list(tu("src/reporter.c"), ["pass", "fail", "skipped", "completion", "exception"]),
        "src/reporter.c:enum")
    # further items are registered by the per-layer modules
    import srcfacts_more
    srcfacts_more.register(add, tu, repo, bdir)
    return items


HEADER = """(* GENERATED by tools/srcfacts.py from /repo's current sources - do not edit. *)
From Coq Require Import List ZArith NArith Bool String Ascii.
From CgreenVerif Require Import Defs CStr Buffers.
Import ListNotations.
Local Open Scope Z_scope.

"""


def generate(repo, gen_dir, pinned_dir, bdir=None):
    bdir = bdir or os.path.join(os.path.dirname(gen_dir), "..", "_work", "build-hooks")
    os.makedirs(gen_dir, exist_ok=True)
    pinned_path = os.path.join(pinned_dir, "facts.json")
    pinned = json.load(open(pinned_path)) if os.path.exists(pinned_path) else {}
    out, status, current = [HEADER], {}, {}
    for name, typ, thunk, src in build_items(repo, bdir):
        try:
            text = thunk()
            status[name] = "derived"
            if name in pinned and pinned[name] != text:
                status[name] = "derived (differs from pinned)"
        except Exception as ex:  # Cannot, KeyError on restructured sources, ...
            if name not in pinned:
                raise
            text = pinned[name]
            status[name] = "pinned (not re-derived: %s)" % (str(ex)[:80])
        current[name] = text
        out.append("(* from %s *)\nDefinition %s : %s :=\n  %s.\n\n" % (src, name, typ, text))
    new = "".join(out)
    path = os.path.join(gen_dir, "Facts.v")
    if not os.path.exists(path) or open(path).read() != new:
        open(path, "w").write(new)
    if os.environ.get("VERIF_PIN") == "1":
        os.makedirs(pinned_dir, exist_ok=True)
        json.dump(current, open(pinned_path, "w"), indent=1, sort_keys=True)
    return status


if __name__ == "__main__":
    root = os.path.dirname(os.path.dirname(os.path.abspath(__file__)))
    st = generate(os.environ.get("VERIF_REPO", "/repo"), os.path.join(root, "coq", "Gen"),
                  os.path.join(root, "coq", "Pinned"))
    for k, v in st.items():
        print("%-28s %s" % (k, v))
