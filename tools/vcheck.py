#!/usr/bin/env python3
"""Single entry point of every check.

  python3 tools/vcheck.py --setup                 build the framework from clean (setup_cmd)
  python3 tools/vcheck.py <ID> [--tier quick|thorough] [--replay file]

Exit status: 0 = property held on everything explored, 1 = VIOLATION line printed,
2 = infrastructure failure (no verdict)."""
import argparse, json, os, shutil, sys, time, traceback

sys.path.insert(0, os.path.dirname(os.path.abspath(__file__)))
import vlib


def registry():
    import check_layerc as C
    reg = {"C01": C.check_C01, "C03": C.check_C03, "C17": C.check_C17}
    for name in ("C02", "C04", "C08", "C13", "C18"):
        if hasattr(C, "check_" + name):
            reg[name] = getattr(C, "check_" + name)
    for mod in ("check_mocks", "check_pure", "check_runner", "check_xml", "check_misc", "check_containers", "check_params", "check_doubles", "check_timeout", "check_faults"):
        try:
            m = __import__(mod)
        except ImportError:
            continue
        reg.update(m.CHECKS)
    return reg


def setup():
    t0 = time.time()
    # from clean: remove build products of the framework
    for d in ("_work",):
        shutil.rmtree(os.path.join(vlib.ROOT, d), ignore_errors=True)
    vlib.sh("make clean >/dev/null 2>&1; rm -f Makefile Makefile.conf .Makefile.d", cwd=vlib.COQ)
    for f in ("model.ml", "model.mli", "driver"):
        try:
            os.remove(os.path.join(vlib.OCAML, f))
        except FileNotFoundError:
            pass
    build = vlib.build_repo("hooks")
    print("repo built with hooks: %.1fs" % (time.time() - t0))
    st = vlib.gen_facts()
    print("facts: %d items, %d derived" % (len(st), sum(1 for v in st.values() if v.startswith("derived"))))
    ok, log = vlib.coq_make()
    print("coq project: %s (%.1fs)" % ("ok" if ok else "FAILED", time.time() - t0))
    if not ok:
        print(log[-3000:])
        return 2
    vlib.ocaml_driver()
    print("ocaml driver built (%.1fs)" % (time.time() - t0))
    bad = vlib.grep_gate()
    if bad:
        print("forbidden constructs: ", bad)
        return 2
    return 0


def main():
    ap = argparse.ArgumentParser()
    ap.add_argument("id", nargs="?")
    ap.add_argument("--setup", action="store_true")
    ap.add_argument("--tier", default=os.environ.get("VERIF_TIER", "quick"))
    ap.add_argument("--replay")
    a = ap.parse_args()
    if a.setup:
        sys.exit(setup())
    reg = registry()
    if a.id not in reg:
        print("unknown property", a.id)
        sys.exit(2)
    seed = int(os.environ.get("VERIF_SEED", "1"))
    tier = a.tier if a.tier in ("quick", "thorough") else "quick"
    chk = vlib.Check(a.id, tier, seed)
    chk.replay_file = a.replay
    try:
        rc = reg[a.id](chk)
    except vlib.Infra as ex:
        print("INFRASTRUCTURE FAILURE: %s" % ex)
        sys.exit(2)
    except Exception:
        # a bug of the machinery is not a verdict about the property
        print("INFRASTRUCTURE FAILURE: the check itself failed\n" + traceback.format_exc())
        sys.exit(2)
    sys.exit(rc)


if __name__ == "__main__":
    main()
