#!/bin/sh
# usage: coqdbg.sh File.v LINE  -- shows the goal just before LINE (replaces that line by Show. and aborts)
f=$1; n=$2
cd /verif/coq
sed "${n}s/.*/  Show. Abort. /" $f > /tmp/Dbg_$f
head -$n /tmp/Dbg_$f > /tmp/Dbg2_$f
cp /tmp/Dbg2_$f /tmp/Dbg.v
timeout 300 coqc -Q . CgreenVerif /tmp/Dbg.v 2>&1 | tail -${3:-40}
