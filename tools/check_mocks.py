"""Checks C06 and C07: the mock engine (src/mocks.c) against Mocks.v and its per-function
specification."""
import itertools, os, subprocess
import vlib

TRUSTED = [
    "Coq 8.16.1 kernel (full .vo build; vm_compute only for table checks and witnesses; no native_compute)",
    "tools/srcfacts.py + clang JSON AST: UNLIMITED_TIME_TO_LIVE, is_always_call/is_never_call, the three time_to_live initialisations, vector growth step re-derived from source",
    "extraction: ExtrOcamlBasic only; ocaml/util.ml, h_mocks.ml, driver.ml glue",
    "correspondence harness: harness/mockvm.c (real expect_/mock_/tally_mocks with a recording reporter and the CGREEN_VERIF queue-walk hook), tools/check_mocks.py (generator, oracle on outputs)",
    "modelled, not verified: constraint kinds other than equality on named parameters / times / will_return (covered by C05, C12, C16); C varargs ABI",
]

NF, NP = 4, 2


# ---------------------------------------------------------------------------------------
# operation sequences: ('E'|'A'|'N', f, cons) | ('C', f, args) | ('M', mode) | ('T',) | ('X',)
# cons: ('p', name, v) | ('t', n) | ('r', v);  args: [(name, v)]
# ---------------------------------------------------------------------------------------
def gen_cons(rng, with_times=True):
    cs = []
    if rng.random() < 0.45:
        cs.append(("p", rng.randrange(NP), rng.choice([0, 1, 1, 2])))
    if rng.random() < 0.15:
        cs.append(("p", rng.randrange(NP), rng.choice([1, 2])))
    if with_times and rng.random() < 0.4:
        cs.append(("t", rng.choice([0, 1, 2, 2, 3, 7])))
    if rng.random() < 0.6:
        cs.append(("r", rng.choice([3, 5, -7, 1 << 40])))
    if rng.random() < 0.04:
        cs.append(("p", 4, 1))          # a name the mock function does not have
    if rng.random() < 0.3:
        cs.append(("o", rng.choice([11, 22, 33])))     # will_set_contents_of_output_parameter(out, &v, sizeof v)
    rng.shuffle(cs)
    return cs


def add_side_effects(rng, ops, p=0.5):
    """expectations of functions 0/1 may carry a side effect that calls function 2 or 3 (which never
    have one themselves): a mock called from inside another mock's call"""
    out = []
    for o in ops:
        if o[0] in "EA" and o[1] in (0, 1) and rng.random() < p:
            o = (o[0], o[1], o[2] + [("s", rng.choice([2, 3]))])
        out.append(o)
    return out


def gen_ops(rng, length, nf=NF, p_decl=0.55, modes=True):
    ops = []
    for _ in range(length):
        r = rng.random()
        f = rng.randrange(nf)
        if r < p_decl:
            k = rng.random()
            if k < 0.7:
                ops.append(("E", f, gen_cons(rng)))
            elif k < 0.85:
                ops.append(("A", f, gen_cons(rng, False)))
            else:
                ops.append(("N", f, []))
        elif r < 0.95:
            args = [(p, rng.choice([0, 1, 1, 2])) for p in range(NP)]
            ops.append(("C", f, args))
        elif modes and r < 0.98:
            ops.append(("M", rng.choice(["strict", "loose", "learning"])))
        else:
            ops.append(("X",) if rng.random() < 0.3 else ("T",))
    ops.append(("T",))
    return ops


BYVAL = (1, 3)      # functions whose return values are declared with will_return_by_value (see harness/mockvm.c)


def to_vm(ops):
    out, line = [], 0
    for o in ops:
        if o[0] in "EAN":
            line += 1
            cs = " ".join("p%d=%d" % (c[1], c[2]) if c[0] == "p" else
                          "b%d" % c[1] if c[0] == "r" and o[1] in BYVAL else "%s%d" % (c[0], c[1]) for c in o[2])
            out.append("%s %d %d %s" % (o[0], o[1], line, cs))          # ("s", g) prints as s<g>
        elif o[0] == "C":
            out.append("C %d %s" % (o[1], ",".join("p%d=%d" % a for a in o[2])))
        elif o[0] == "M":
            out.append("M " + o[1])
        else:
            out.append(o[0])
    return ";".join(out)


NESTED_ARGS = [(0, 1), (1, 1)]


def to_sexp(ops, nested=None):
    """the model knows no side effects: a call that runs a side effect calling g is followed by the
    call of g as an operation of its own (nested[k] = the functions called from inside op k)"""
    out, line = [], 0
    for k, o in enumerate(ops):
        if o[0] in "EAN":
            line += 1
            cs = " ".join("(p %d %d)" % (c[1], c[2]) if c[0] == "p" else "(%s %d)" % (c[0], c[1]) for c in o[2] if c[0] not in "so")
            out.append("(%s %d %d %s)" % (o[0], o[1], line, cs))
        elif o[0] == "C":
            out.append("(C %d %s)" % (o[1], " ".join("(%d %d)" % a for a in o[2])))
            for g in (nested[k] if nested else []):
                out.append("(C %d %s)" % (g, " ".join("(%d %d)" % a for a in NESTED_ARGS)))
        elif o[0] == "M":
            out.append("(M %s)" % o[1])
        else:
            out.append(o[0])
    return "(" + " ".join(out) + ")"


def parse_out(line):
    """-> per op: (results [(line, ok)], ret, queue [(f, line, ttl, ncalled, ntrig)])"""
    res = []
    for part in line.rstrip("\n").split(";"):
        if part == "":
            continue
        r, ret, q = part.split("/")
        results = [tuple(map(int, x.split(":"))) for x in r.split()]
        queue = [tuple(map(int, x.split(":"))) for x in q.split()]
        res.append((results, int(ret), queue))
    return res


def run_vm(drv, cases, timeout=300):
    p = subprocess.run([drv], input="\n".join(to_vm(c) for c in cases) + "\n", stdout=subprocess.PIPE,
                       stderr=subprocess.DEVNULL, text=True, timeout=timeout)
    lines = p.stdout.split("\n")[:-1]
    CELLS.clear()
    for i, l in enumerate(lines):
        main, _, cells = l.partition("|")
        lines[i] = main
        CELLS.append([int(x) for x in cells.split(",") if x])
    if p.returncode != 0 or len(lines) != len(cases):
        # find the case that killed it
        return lines, p.returncode
    return lines, 0


CELLS = []      # per case of the last run_vm: the out cell after each op


# ---------------------------------------------------------------------------------------
# per-function specification, as an independent oracle on the implementation's outputs
# (the executable reading of Spec_Mocks.v: every function has its own FIFO)
# ---------------------------------------------------------------------------------------
OUT_CELLS = []     # filled by spec_run: expected out cell per op (None = not judged)


def spec_run(ops, unlimited, nested_out=None):
    """Expected (results multiset per op, return value) from per-function FIFOs.
    pending entry: dict(line, kind 'times'/'always'/'never', left, cons, called, trig)"""
    pend = {}
    mode = "strict"
    succ = set()
    out = []
    line = 0
    outs = []
    def call(f, args, res, nest):
        """one call of f served by f's own FIFO; returns its return value; nested calls appended"""
        nonlocal mode
        ret = 0
        l = pend.get(f, [])
        if not l:
            if mode == "strict":
                res.append((0, 0))
            return ret
        e = l[0]
        if e["kind"] == "never":
            e["trig"] += 1
            res.append((e["line"], 0))
            return ret
        succ.add(f)
        ret = next((c[1] for c in e["cons"] if c[0] == "r"), 0)
        outs.append([c[1] for c in e["cons"] if c[0] == "o"])
        names = [a[0] for a in args]
        unknown = next((c for c in e["cons"] if c[0] == "p" and c[1] not in names), None)
        if unknown is not None:
            res.append((e["line"], 0))
        else:
            for a in args:
                for c in e["cons"]:
                    if c[0] == "p" and c[1] == a[0]:
                        res.append((e["line"], 1 if a[1] == c[2] else 0))
            e["called"] += 1
            for c in e["cons"]:
                if c[0] == "s":
                    nest.append(c[1])
                    call(c[1], NESTED_ARGS, res, nest)
        if e["kind"] == "times":
            e["left"] -= 1
            if e["left"] <= 0:
                l.remove(e)
        return ret

    for k_op, o in enumerate(ops):
        res, ret = [], 0
        nest = []
        outs = []
        if o[0] in "EAN":
            line += 1
            f = o[1]
            l = pend.setdefault(f, [])
            if any(e["kind"] == "always" for e in l):
                res.append((line, 0))
            elif any(e["kind"] == "never" for e in l):
                # the implementation removes the never-entry (its removal loop skips the entry after it)
                i = next(i for i, e in enumerate(l) if e["kind"] == "never")
                del l[i]
                res.append((line, 0))
            else:
                times = [c[1] for c in o[2] if c[0] == "t"]
                if o[0] == "A":
                    kind, left = "always", None
                elif o[0] == "N":
                    kind, left = "never", None
                else:
                    kind, left = "times", (times[0] if times else 1)
                    if left <= 0:
                        kind, left = "never", None          # times(0): must never be called
                l.append({"line": line, "kind": kind, "left": left, "cons": o[2], "called": 0, "trig": 0,
                          "ntimes": len(times) if o[0] == "E" or True else 0})
        elif o[0] == "C":
            ret = call(o[1], o[2], res, nest)
        elif o[0] == "M":
            mode = o[1]
        elif o[0] == "T":
            allp = sorted((e for l in pend.values() for e in l), key=lambda e: e["line"])
            for e in allp:
                if e["kind"] == "always":
                    continue
                if e["kind"] == "never":
                    if e["trig"] == 0:
                        res.append((e["line"], 1))
                    continue
                times = [c[1] for c in e["cons"] if c[0] == "t"]
                if not times:
                    res.append((e["line"], 0))
                else:
                    res.append((e["line"], 0))       # still pending at the end = not fully satisfied
            pend, succ = {}, set()
        elif o[0] == "X":
            pend, succ = {}, set()
        # the out cell after a call: what the serving expectation's content setter says (the last one when a
        # nested call wrote too); judged only when every check of this operation passed
        flat = [v for l_ in outs for v in l_]
        exp_cell = (flat[-1] if flat else -1) if o[0] == "C" and all(r[1] == 1 for r in res) and len(outs) <= 1 else None
        OUT_CELLS.append(exp_cell)
        out.append((sorted(res), ret))
        if nested_out is not None:
            nested_out.append(nest)
    return out


def classify(ops):
    """known-finding corners present in the sequence"""
    sigs = set()
    for o in ops:
        if o[0] == "E":
            ts = [c[1] for c in o[2] if c[0] == "t"]
            if ts and ts[0] == 0:
                sigs.add("times0")
            if len(ts) > 1:
                sigs.add("two-times")
            if ts and ts[0] == 0x0f314159:
                sigs.add("times-sentinel")
    return sigs


def setup(chk, props):
    build = vlib.build_repo("hooks")
    drv = vlib.build_driver("mockvm", build)
    chk.prove(props + ["Properties_Code_Mocks.v"])
    chk.cov["trusted_base"] = TRUSTED + [
        "Properties_Code_Mocks.v: find_expectation(), have_always_expectation_for(), have_never_call_expectation_for(), remove_expectation_for(), destroy_expectation_if_time_to_die(), remove_never_call_expectation_for() and successfully_mocked_call() of src/mocks.c, translated whole on every run, are proved equal to Mocks.v's find_exp / have_always / have_never / remove_first / after_use / remove_never / list membership for every queue; trigger_unfulfilled_expectations() is proved to tell the reporter exactly the model's tally (Mocks.mstep MTally: nothing for always, one pass for an uncalled never, one failure for every other entry left), entry by entry with line and function name, for every queue whose entries have no times() clause (CLite interpreter; CgreenVector calls have list semantics, records live in a heap)",
        "tools/srccode.py: the queue functions of src/mocks.c (find_expectation, remove_expectation_for, have_always/never..., remove_never_call..., destroy_expectation_if_time_to_die, successfully_mocked_call) and expect_(), always_expect_(), never_expect_(), tally_mocks() with trigger_unfulfilled_expectations() and clear_mocks() are translated whole into CLite programs on every run and run by the extracted interpreter against Mocks.v (the queue functions on every queue of up to 3-4 entries; declarations and the tally on queues of up to 2-3 entries with times()/will_return constraints, against Mocks.mstep): a function-level correspondence check, not a proof",
        "axioms: see coverage.print_assumptions"]
    import codetie, re as _re
    m = _re.search(r"Definition unlimited_ttl : Z :=\s*\(?(-?\d+)", open(os.path.join(vlib.COQ, "Gen", "Facts.v")).read())
    codetie.mocks_queue(chk, int(m.group(1)) if m else 0x0f314159)
    return drv


def all_small_sequences(nf=2, maxlen=4):
    """every sequence of <= maxlen ops over nf functions from a small op alphabet"""
    alpha = []
    for f in range(nf):
        alpha += [("E", f, []), ("E", f, [("t", 2)]), ("E", f, [("r", 5)]), ("A", f, []), ("N", f, []), ("C", f, [(0, 1), (1, 1)])]
    for n in range(1, maxlen + 1):
        for seq in itertools.product(alpha, repeat=n):
            yield list(seq) + [("T",)]


def gen_all(chk, which):
    cases = []
    # corpus: the corners first
    cases.append([("E", 0, [("t", 0)]), ("C", 0, [(0, 1), (1, 1)]), ("T",)])
    cases.append([("E", 0, [("t", 0)]), ("T",)])
    cases.append([("E", 0, [("r", 1)]), ("E", 1, []), ("E", 0, [("r", 2)]), ("C", 1, [(0, 0), (1, 0)]), ("C", 0, [(0, 0), (1, 0)]), ("C", 0, [(0, 0), (1, 0)]), ("T",)])
    cases.append([("E", 0, []), ("N", 0, []), ("N", 0, []), ("C", 0, [(0, 0), (1, 0)]), ("T",)])
    cases.append([("E", 0, [("t", 0)]), ("E", 1, []), ("T",)])
    if which == "C07":
        cases.append([("E", 0, [("t", 0x0f314159)]), ("T",)])         # the sentinel (known finding)
    n = 1500 if chk.tier == "quick" else 120000
    for i in range(n):
        length = chk.rng.choice([1, 2, 3, 5, 8, 13, 21, 40])
        cases.append(gen_ops(chk.rng, length, nf=chk.rng.choice([1, 2, NF]), modes=(which == "C07" or i % 3 == 0)))
    # mocks called from inside another mock's call (with_side_effect): a share of the random histories, and
    # the family "inner declared before outer, both expiring, a third expectation pending behind them"
    for i in range(300 if chk.tier == "quick" else 20000):
        length = chk.rng.choice([3, 5, 8, 13, 21])
        cases.append(add_side_effects(chk.rng, gen_ops(chk.rng, length, nf=NF, p_decl=0.5, modes=False)))
    call = lambda f: ("C", f, [(0, 1), (1, 1)])
    for inner in (2, 3):
        for outer in (0, 1):
            third = 1 - outer
            cases.append([("E", inner, [("r", 5)]), ("E", outer, [("r", 1), ("s", inner)]), ("E", third, [("r", 7)]), ("E", outer, [("r", 2)]),
                          call(outer), call(third), call(outer), ("T",)])
            cases.append([("E", inner, [("r", 5), ("t", 2)]), ("A", outer, [("s", inner)]), ("E", third, [("r", 7)]), call(outer), call(outer), call(outer), call(third), ("T",)])
    # store growth boundaries: 95..105 and 195..205 pending expectations, then consume from head/middle
    for base in ([99, 100, 101, 200] if chk.tier == "quick" else list(range(95, 106)) + list(range(195, 206)) + [300, 401]):
        ops = [("E", i % NF, [("r", i)]) for i in range(base)]
        for j in range(chk.rng.choice([3, 10])):
            ops.append(("C", chk.rng.randrange(NF), [(0, 1), (1, 1)]))
        ops += [("E", 1, []), ("C", 1, [(0, 1), (1, 1)]), ("T",)]
        cases.append(ops)
    # the queue used as a queue near the capacity of its store: fill to just below / at / above a growth
    # boundary, serve the oldest entries (the head leaves), declare more, then serve everything in order
    for base in ([99, 100, 101] if chk.tier == "quick" else [98, 99, 100, 101, 102, 199, 200, 201]):
        for heads in ((1, 3) if chk.tier == "quick" else (1, 2, 3, 5)):
            for more in ((1, 2) if chk.tier == "quick" else (1, 2, 3, 4)):
                ops = [("E", i % NF, [("r", i)]) for i in range(base)]
                ops += [call(i % NF) for i in range(heads)]                       # each call is served by the head of the whole queue
                ops += [("E", (base + i) % NF, [("r", 1000 + i)]) for i in range(more)]
                ops += [call((heads + i) % NF) for i in range(base - heads + more)]   # everything still pending, oldest first
                ops.append(("T",))
                cases.append(ops)
    if chk.tier == "thorough":
        cases += list(all_small_sequences(2, 4))
    else:
        cases += list(all_small_sequences(2, 2))
    return cases


def run_all(chk, drv, cases, which):
    unlimited = None
    lines, rc = run_vm(drv, cases)
    if rc != 0 or len(lines) != len(cases):
        bad = cases[len(lines)] if len(lines) < len(cases) else None
        chk.violation("engine-crash", "the mock engine crashed (exit %s) on a sequence" % rc,
                      {"ops": to_vm(bad) if bad else None, "how": "echo '<ops>' | _work/bin-hooks/mockvm"})
        cases = cases[:len(lines)]
    nests = []
    for c in cases:
        n = []
        spec_run(c, unlimited, n)
        nests.append(n)
    model = [merge_nested(ml, n) for ml, n in zip(vlib.run_model("mocks", [to_sexp(c, n) for c, n in zip(cases, nests)]), nests)]
    for idx, (ops, il, ml) in enumerate(zip(cases, lines, model)):
        chk.case(to_vm(ops), nontrivial=len(ops) > 2)
        chk.count("len:%s" % ("1-3" if len(ops) <= 3 else "4-10" if len(ops) <= 10 else "11-50" if len(ops) <= 50 else ">50"))
        for o in ops:
            chk.count("op:" + o[0])
        chk.cov["disagreements_checked"] += 1
        if il.strip() != ml.strip():
            # first differing op
            ip, mp = il.split(";"), ml.split(";")
            k = next((i for i in range(min(len(ip), len(mp))) if ip[i].strip() != mp[i].strip()), min(len(ip), len(mp)))
            chk.disagreement("op %d (%s): implementation %r, model %r" % (k, to_vm(ops).split(";")[k] if k < len(ops) else "?", ip[k] if k < len(ip) else None, mp[k] if k < len(mp) else None),
                             {"ops": to_vm(ops), "how": "echo '<ops>' | _work/bin-hooks/mockvm ; echo '<sexp>' | ocaml/driver mocks", "sexp": to_sexp(ops)})
        chk.sample({"ops": to_vm(ops)[:300], "implementation": il[:300]}, limit=4)
        # specification on the implementation's output
        got = parse_out(il)
        OUT_CELLS.clear()
        exp = spec_run(ops, unlimited)
        cs = classify(ops)
        cells = CELLS[idx] if idx < len(CELLS) else []
        if which == "C06":
            for k, (want, have) in enumerate(zip(list(OUT_CELLS), cells)):
                if want is not None and want != have:
                    chk.violation(sorted(cs)[0] if cs else "side-effect", "call %d (%s) leaves %d in its output parameter; the earliest pending expectation of f%d sets %s" % (
                        k, to_vm(ops).split(";")[k], have, ops[k][1], want if want != -1 else "nothing"),
                        {"ops": to_vm(ops), "op_index": k, "implementation": il, "cells": cells, "how": "echo '<ops>' | _work/bin-hooks/mockvm"})
        for k, ((results, ret, queue), (eres, eret)) in enumerate(zip(got, exp)):
            o = ops[k]
            rp = {"ops": to_vm(ops), "op_index": k, "op": to_vm([o]) if o[0] not in "EAN" else str(o),
                  "implementation": il, "how": "echo '<ops>' | _work/bin-hooks/mockvm"}
            if which == "C06" and o[0] == "C" and ret != eret:
                chk.violation(sorted(cs)[0] if cs else "return-value", "call %d returns %d; the earliest pending expectation of f%d says %d" % (k, ret, o[1], eret), rp)
            if sorted(results) != eres:
                if which == "C06" and o[0] != "C":
                    continue
                if which == "C07" and o[0] == "C" and not (len(results) != len(eres) or [r[1] for r in sorted(results)] != [r[1] for r in eres]):
                    continue
                sig = sorted(cs)[0] if cs else ("results-" + o[0])
                chk.violation(sig, "op %d (%s): reported %s, specification %s" % (k, to_vm(ops).split(";")[k], sorted(results), eres), rp)
        if which == "C07":
            # strict-mock test passes exactly when the specification machine reports no failure
            if all(o[0] != "M" for o in ops):
                impl_fail = any(r[1] == 0 for res, ret, q in got for r in res)
                spec_fail = any(r[1] == 0 for res, ret in exp for r in res)
                if impl_fail != spec_fail:
                    chk.violation(sorted(cs)[0] if cs else "pass-iff-conforms", "test %s but calls %s the declarations" % (
                        "fails" if impl_fail else "passes", "conform to" if not spec_fail else "do not conform to"),
                        {"ops": to_vm(ops), "implementation": il, "how": "echo '<ops>' | _work/bin-hooks/mockvm"})


def merge_nested(ml, nests):
    """the model ran a nested call as an operation of its own: fold it back into the outer call
    (results of both in order, the outer call's return value, the queue after both)"""
    parts = [p for p in ml.split(";") if p != ""]
    out, i = [], 0
    for n in nests:
        if i >= len(parts):
            break
        r, ret, q = parts[i].split("/")
        i += 1
        for _ in n:
            if i >= len(parts):
                break
            r2, _ret2, q = parts[i].split("/")
            r = r + r2
            i += 1
        out.append("%s/%s/%s" % (r, ret, q))
    return ";".join(out) + ";"


def check_C06(chk):
    drv = setup(chk, ["Properties_C06.v"])
    run_all(chk, drv, gen_all(chk, "C06"), "C06")
    return chk.finish()


def check_C07(chk):
    drv = setup(chk, ["Properties_C07.v"])
    run_all(chk, drv, gen_all(chk, "C07"), "C07")
    return chk.finish()


CHECKS = {"C06": check_C06, "C07": check_C07}
