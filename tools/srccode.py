"""Translator of whole C functions: /repo's current sources -> coq/Gen/Code.v (programs of the
language of coq/CLite.v).

Unlike srcfacts.py (tables, constants, loop-free expressions) this one translates complete
function bodies - loops, early returns, switch, pointer walks over char buffers, records reached
through pointers, calls - construct by construct, with no interpretation of its own: what the
programs mean is decided by the interpreter in CLite.v, and Lemmas_Code*.v prove that they
compute what the hand-written models compute.

The mapping is syntactic (clang's typed JSON AST, one node kind -> one constructor):
  integer/char literal, enum constant -> EConst      string literal -> EStr bytes
  parameter/local -> EVar     file-scope variable -> EGlob      function name -> EFun
  p->a.b.c -> EField p "a.b.c"     *p, p[i] (char) -> ELoad ty     s.a.b of a struct local -> EVar "s.a.b"
  + - * / % of integer type T -> EArith T (EBin ..)  (wraps if unsigned, undefined if signed and out of range)
  on pointers -> EBin       == != < <= > >= && || ! - ~ ?: -> the same
  implicit/explicit integral conversion to T -> ECast T        pointer casts -> nothing
  f(args) -> ECall          (*p->slot)(args) -> ECallPtr
  x = e; x op= e; x++; -> SAssign      if/while/for/break/continue/return -> the same (for's increment is SLoop's third part)
  switch -> chain of SIf on a fresh local (every case must end in break/return; no other break inside)
  `x = e` inside a loop condition, `*p++` inside an expression statement -> hoisted in evaluation order
Anything else raises Cannot: the function then falls back to its pinned text (reported in the
evidence as not re-derived) and the correspondence check alone carries the tie for it.
"""
import json, os, re, sys

sys.path.insert(0, os.path.dirname(os.path.abspath(__file__)))
from srcfacts import load_tu, Cannot, body_of


# ------------------------------------------------------------------------------------------
# what to translate: (file, [functions]) per program
# ------------------------------------------------------------------------------------------
PROGRAMS = [
    # the base reporter and, in the same program (its functions call the base's), the CUTE reporter's
    # per-test / per-suite functions
    ("reporter", ["src/reporter.c", "src/cute_reporter.c"],
     [["read_reporter_results", "reporter_finish_test", "reporter_finish_suite",
       "reporter_start_test", "reporter_start_suite",
       "add_reporter_result", "send_reporter_exception_notification",
       "send_reporter_skipped_notification", "send_reporter_completion_notification"],
      ["cute_start_suite", "cute_start_test", "cute_finish_test", "cute_finish_suite", "cute_failed_to_complete"]]),
    # the path of one test through the runner
    ("runner", "src/runner.c",
     ["run_the_test_code", "run_test_in_the_current_process", "run_test_suite", "run_single_test"]),
    ("platform", "src/posix_runner_platform.c", ["in_child_process", "die_in", "stop"]),
    # the walk over the suite tree (with the helpers of src/suite.c it calls)
    ("walk", ["src/runner.c", "src/suite.c"],
     [["run_every_test", "run_named_test"], ["has_test", "count_tests", "has_setup", "has_teardown"]]),
    # the expectation queue of the mock engine
    ("mocks", "src/mocks.c",
     ["find_expectation", "remove_expectation_for", "have_always_expectation_for",
      "have_never_call_expectation_for", "remove_never_call_expectation_for",
      "is_always_call", "is_never_call", "is_first_call_matching", "destroy_expectation_if_time_to_die",
      "successfully_mocked_call", "trigger_unfulfilled_expectations",
      "expect_", "always_expect_", "never_expect_", "tally_mocks", "clear_mocks",
      "handle_missing_expectation_for", "report_unexpected_call", "report_violated_never_call"]),
    # cgreen-runner's selection of tests
    ("tool", "tools/runner.c", ["test_matches_pattern", "context_name_of", "test_name_of"]),
    # percent signs in failure messages
    ("percent", "src/message_formatting.c",
     ["next_percent_sign", "count_percent_signs", "copy_while_doubling_percent_signs", "double_all_percent_signs_in"]),
    # the tokenizer of mock() argument lists
    ("params", "src/parameters.c",
     ["stringdup", "create_vector_of_names", "remove_whitespace_around_parentheses", "tokenise_by_commas_and_whitespace",
      "skip_nulls_until", "end_of_token", "last_char_of", "begins_with", "move_parameter_to_beginning_of",
      "strip_function_from"]),
    # attribute escaping of the xml reporter
    ("xmlesc", "src/xml_reporter.c", ["concat", "concat_escaped", "escaped"]),
]


def ity_of(qual):
    q = qual.replace("const ", "").replace("volatile ", "").strip()
    table = {
        "char": "I8", "signed char": "I8", "unsigned char": "U8",
        "int": "I32", "unsigned int": "U32", "short": "I32", "unsigned short": "U32",
        "long": "I64", "unsigned long": "U64", "long long": "I64", "unsigned long long": "U64",
        "size_t": "U64", "intptr_t": "I64", "uintptr_t": "U64", "ssize_t": "I64", "ptrdiff_t": "I64",
        "bool": "IBool", "_Bool": "IBool", "uint32_t": "U32", "int32_t": "I32", "uint8_t": "U8",
    }
    return table.get(q)


def node_type(n):
    t = n.get("type") or {}
    return t.get("desugaredQualType") or t.get("qualType") or ""


ENUM_TYPEDEFS = set()


def node_ity(n):
    t = n.get("type") or {}
    if (t.get("qualType") or "").replace("const ", "").strip() in ENUM_TYPEDEFS:
        return "U32"
    for k in ("qualType", "desugaredQualType"):
        if k in t:
            r = ity_of(t[k])
            if r:
                return r
    q = node_type(n)
    if q.startswith("enum ") or "enum " in q:
        return "U32"
    return None


def is_pointer_type(n):
    q = node_type(n)
    return q.endswith("*") or q.endswith("]") or "(*)" in q


def coq_string(s):
    return '"' + s.replace('"', '""') + '"'


def decode_c_string(lit):
    """clang prints the literal as written in the (preprocessed) source, quotes included; adjacent
    literals are already concatenated."""
    assert lit.startswith('"') and lit.endswith('"'), lit
    s, out, i = lit[1:-1], [], 0
    simple = {"n": 10, "t": 9, "r": 13, "\\": 92, '"': 34, "'": 39, "0": 0, "a": 7, "b": 8, "f": 12, "v": 11, "?": 63, "e": 27}
    data = s.encode("utf-8")
    while i < len(data):
        c = data[i]
        if c != 92:
            out.append(c); i += 1
            continue
        i += 1
        ch = chr(data[i])
        if ch == "x":
            j = i + 1
            while j < len(data) and chr(data[j]) in "0123456789abcdefABCDEF":
                j += 1
            out.append(int(data[i + 1:j], 16) & 255); i = j
        elif ch in "01234567":
            j = i
            while j < len(data) and j < i + 3 and chr(data[j]) in "01234567":
                j += 1
            out.append(int(data[i:j], 8) & 255); i = j
        elif ch in simple:
            out.append(simple[ch]); i += 1
        else:
            raise Cannot("escape \\%s in a string literal" % ch)
    return out


def zlist(bs):
    return "[" + "; ".join(str(b) for b in bs) + "]"


class Fn:
    """Translation of one function."""

    def __init__(self, tu, name):
        self.tu, self.name = tu, name
        for k, v in (tu.get("typedefs") or {}).items():
            if v.startswith("enum ") or v.startswith("enum{") or v.startswith("enum ("):
                ENUM_TYPEDEFS.add(k)
        self.fn = tu["funs"][name]
        self.locals = set()
        self.struct_locals = set()
        self.params = []
        for c in self.fn.get("inner", []):
            if c.get("kind") == "ParmVarDecl":
                self.params.append(c.get("name", "_unnamed%d" % len(self.params)))
                self.locals.add(self.params[-1])
        self.tmp = 0
        self.valists = set()
        self.pending_post = []     # post-increments to run after the current expression statement

    # -- expressions --------------------------------------------------------------------
    def member_chain(self, e):
        """(base node, dotted path, arrow?) for a chain of MemberExprs down to the first arrow or
        to a declaration reference"""
        path = []
        while e.get("kind") == "MemberExpr":
            path.insert(0, e["name"])
            if e.get("isArrow"):
                return self.unparen(e["inner"][0]), ".".join(path), True
            e = self.unparen(e["inner"][0])
        return e, ".".join(path), False

    def unparen(self, e):
        while e.get("kind") in ("ParenExpr", "ConstantExpr") or (
                e.get("kind") == "ImplicitCastExpr" and e.get("castKind") in ("LValueToRValue", "NoOp")):
            e = e["inner"][0]
        return e

    def expr(self, e):
        k = e.get("kind")
        if k in ("ParenExpr", "ConstantExpr"):
            return self.expr(e["inner"][0])
        if k == "IntegerLiteral":
            return "(EConst (%s))" % int(e["value"])
        if k == "CharacterLiteral":
            return "(EConst (%s))" % int(e["value"])
        if k == "StringLiteral":
            return "(EStr %s)" % zlist(decode_c_string(e["value"]))
        if k == "DeclRefExpr":
            d = e["referencedDecl"]
            dk, nm = d.get("kind"), d.get("name")
            if dk == "EnumConstantDecl":
                if nm not in self.tu["enums"]:
                    raise Cannot("enum constant %s not found" % nm)
                return "(EConst (%s))" % self.tu["enums"][nm]
            if dk == "FunctionDecl":
                return "(EFun %s)" % coq_string(nm)
            if dk in ("ParmVarDecl", "VarDecl"):
                if nm in self.locals:
                    return "(EVar %s)" % coq_string(nm)
                return "(EGlob %s)" % coq_string(nm)
            raise Cannot("reference to a " + str(dk))
        if k == "MemberExpr":
            base, path, arrow = self.member_chain(e)
            if arrow:
                return "(EField %s %s)" % (self.expr(base), coq_string(path))
            if base.get("kind") == "DeclRefExpr" and base["referencedDecl"].get("name") in self.locals:
                return "(EVar %s)" % coq_string(base["referencedDecl"]["name"] + "." + path)
            if base.get("kind") == "DeclRefExpr":
                return "(EGlob %s)" % coq_string(base["referencedDecl"]["name"] + "." + path)
            if base.get("kind") == "UnaryOperator" and base.get("opcode") == "*":
                return "(EField %s %s)" % (self.expr(base["inner"][0]), coq_string(path))
            if base.get("kind") == "ArraySubscriptExpr":
                return "(EField %s %s)" % (self.expr(base), coq_string(path))
            raise Cannot("member of a " + str(base.get("kind")))
        if k == "ImplicitCastExpr" or k == "CStyleCastExpr":
            ck = e.get("castKind")
            inner = e["inner"][0]
            if ck in ("LValueToRValue", "NoOp", "ArrayToPointerDecay", "FunctionToPointerDecay", "BitCast",
                      "PointerToIntegral", "IntegralToPointer", "BuiltinFnToFnPtr"):
                return self.expr(inner)
            if ck == "NullToPointer":
                return "(EConst 0)"
            if ck in ("PointerToBoolean", "IntegralToBoolean"):
                return "(ECast IBool %s)" % self.expr(inner)
            if ck == "IntegralCast":
                t = node_ity(e)
                if not t:
                    raise Cannot("conversion to " + node_type(e))
                return "(ECast %s %s)" % (t, self.expr(inner))
            if ck == "ToVoid":
                return self.expr(inner)
            raise Cannot("cast kind " + str(ck))
        if k == "UnaryOperator":
            op = e["opcode"]
            a = e["inner"][0]
            if op == "!":
                return "(EUn ONot %s)" % self.expr(a)
            if op == "-":
                t = node_ity(e)
                x = "(EUn ONeg %s)" % self.expr(a)
                return "(EArith %s %s)" % (t, x) if t else x
            if op == "+":
                return self.expr(a)
            if op == "~":
                t = node_ity(e)
                if not t:
                    raise Cannot("~ of " + node_type(e))
                return "(ECast %s (EUn OBitNot %s))" % (t, self.expr(a))
            if op == "*":
                if "(" in node_type(e) and ")(" in node_type(e):     # *function_pointer
                    return self.expr(a)
                t = node_ity(e)
                if t in ("I8", "U8"):
                    return "(ELoad %s %s)" % (t, self.expr(a))
                raise Cannot("dereference of a pointer to " + node_type(e))
            if op == "&":
                a2 = self.unparen(a)
                if a2.get("kind") == "ArraySubscriptExpr":
                    return "(EBin OAdd %s %s)" % (self.expr(a2["inner"][0]), self.expr(a2["inner"][1]))
                if a2.get("kind") == "DeclRefExpr" and a2["referencedDecl"].get("kind") == "FunctionDecl":
                    return "(EFun %s)" % coq_string(a2["referencedDecl"]["name"])
                if a2.get("kind") == "DeclRefExpr" and a2["referencedDecl"].get("name") in self.valists:
                    return self.expr(a2)
                raise Cannot("address of a " + str(a2.get("kind")))
            if op in ("++", "--") and not e.get("isPostfix", False):
                raise Cannot("pre-increment inside an expression")
            if op in ("++", "--"):
                # post-increment inside an expression: value now, update after the statement
                tgt = self.unparen(a)
                if tgt.get("kind") != "DeclRefExpr" or tgt["referencedDecl"].get("name") not in self.locals:
                    raise Cannot("post-increment of something that is not a local, inside an expression")
                self.pending_post.append(self.incdec(a, op))
                return self.expr(a)
            raise Cannot("unary " + op)
        if k == "BinaryOperator":
            op = e["opcode"]
            a, b = e["inner"]
            ops = {"+": "OAdd", "-": "OSub", "*": "OMul", "/": "ODiv", "%": "OMod", "==": "OEq", "!=": "ONe",
                   "<": "OLt", "<=": "OLe", ">": "OGt", ">=": "OGe", "&&": "OAnd", "||": "OOr"}
            if op == "&":
                sp = self.ctype_test(a, b)
                if sp:
                    return sp
            if op not in ops:
                raise Cannot("operator %s inside an expression" % op)
            x = "(EBin %s %s %s)" % (ops[op], self.expr(a), self.expr(b))
            if op in ("+", "-", "*", "/", "%") and not is_pointer_type(e):
                t = node_ity(e)
                if not t:
                    raise Cannot("arithmetic of type " + node_type(e))
                return "(EArith %s %s)" % (t, x)
            return x
        if k == "ConditionalOperator":
            c, a, b = e["inner"]
            return "(ECond %s %s %s)" % (self.expr(c), self.expr(a), self.expr(b))
        if k == "ArraySubscriptExpr":
            t = node_ity(e)
            if t in ("I8", "U8"):
                return "(ELoad %s (EBin OAdd %s %s))" % (t, self.expr(e["inner"][0]), self.expr(e["inner"][1]))
            q = node_type(e)
            q = (self.tu.get("typedefs") or {}).get(q.replace("const ", "").strip(), q)
            if q.endswith("*") or q.startswith("struct ") or q.startswith("union ") or "struct " in q:
                return "(EIndex %s %s)" % (self.expr(e["inner"][0]), self.expr(e["inner"][1]))
            raise Cannot("subscript of an array of " + node_type(e))
        if k == "CallExpr":
            callee = self.unparen(e["inner"][0])
            while callee.get("kind") == "ImplicitCastExpr":
                callee = self.unparen(callee["inner"][0])
            args = "[" + "; ".join(self.expr(a) for a in e["inner"][1:]) + "]"
            if callee.get("kind") == "DeclRefExpr" and callee["referencedDecl"].get("kind") == "FunctionDecl":
                return "(ECall %s %s)" % (coq_string(callee["referencedDecl"]["name"]), args)
            if callee.get("kind") == "UnaryOperator" and callee.get("opcode") == "*":
                callee = self.unparen(callee["inner"][0])
                while callee.get("kind") == "ImplicitCastExpr":
                    callee = self.unparen(callee["inner"][0])
            label = self.label_of(callee)
            return "(ECallPtr %s %s %s)" % (self.expr(callee), coq_string(label), args)
        if k == "UnaryExprOrTypeTraitExpr" and e.get("name") == "sizeof":
            m = re.search(r"\[(\d+)\]$", (e.get("argType") or {}).get("qualType", "") or
                          (node_type(e["inner"][0]) if e.get("inner") else ""))
            if m:
                return "(EConst %s)" % m.group(1)
            at = (e.get("argType") or {}).get("qualType", "")
            if at == "va_list":
                return "(EConst 24)"
            sizes = {"char": 1, "int": 4, "bool": 1, "_Bool": 1, "long": 8, "size_t": 8, "intptr_t": 8, "double": 8}
            if at in sizes:
                return "(EConst %d)" % sizes[at]
            if e.get("inner") and ity_of(node_type(e["inner"][0])):
                return "(EConst %d)" % {"I8": 1, "U8": 1, "IBool": 1, "I32": 4, "U32": 4, "I64": 8, "U64": 8}[ity_of(node_type(e["inner"][0]))]
            raise Cannot("sizeof " + at)
        raise Cannot("expression kind " + str(k))

    def ctype_test(self, a, b):
        """glibc's isspace(c) and friends are macros: ((*__ctype_b_loc())[(int)(c)] & (unsigned short)_ISxxx)"""
        masks = {8192: "isspace", 2048: "isdigit", 1024: "isalpha", 8: "isalnum", 256: "isupper", 512: "islower"}
        a2 = self.unparen(a)
        while a2.get("kind") in ("ImplicitCastExpr", "CStyleCastExpr"):
            a2 = self.unparen(a2["inner"][0])
        if a2.get("kind") != "ArraySubscriptExpr":
            return None
        base = json.dumps(a2["inner"][0])
        if "__ctype_b_loc" not in base:
            return None
        b2 = self.unparen(b)
        while b2.get("kind") in ("ImplicitCastExpr", "CStyleCastExpr", "ConstantExpr"):
            b2 = self.unparen(b2["inner"][0])
        m = None
        if b2.get("kind") == "DeclRefExpr":
            m = self.tu["enums"].get(b2["referencedDecl"].get("name"))
        elif b2.get("kind") == "IntegerLiteral":
            m = int(b2["value"])
        if m not in masks:
            raise Cannot("ctype class mask %s" % m)
        return "(ECall %s [%s])" % (coq_string(masks[m]), self.expr(a2["inner"][1]))

    def label_of(self, callee):
        if callee.get("kind") == "MemberExpr":
            base, path, arrow = self.member_chain(callee)
            b = base["referencedDecl"]["name"] if base.get("kind") == "DeclRefExpr" else "?"
            return b + ("->" if arrow else ".") + path
        if callee.get("kind") == "DeclRefExpr":
            return callee["referencedDecl"]["name"]
        return "?"

    # -- lvalues and assignments ----------------------------------------------------------
    def lval(self, e):
        e = self.unparen(e)
        k = e.get("kind")
        if k == "DeclRefExpr":
            nm = e["referencedDecl"]["name"]
            return ("(LVar %s)" if nm in self.locals else "(LGlob %s)") % coq_string(nm)
        if k == "MemberExpr":
            base, path, arrow = self.member_chain(e)
            if arrow:
                return "(LField %s %s)" % (self.expr(base), coq_string(path))
            if base.get("kind") == "DeclRefExpr" and base["referencedDecl"].get("name") in self.locals:
                return "(LVar %s)" % coq_string(base["referencedDecl"]["name"] + "." + path)
            if base.get("kind") == "UnaryOperator" and base.get("opcode") == "*":
                return "(LField %s %s)" % (self.expr(base["inner"][0]), coq_string(path))
            raise Cannot("assignment to a member of " + str(base.get("kind")))
        if k == "UnaryOperator" and e.get("opcode") == "*":
            t = node_ity(e)
            if t in ("I8", "U8", "IBool"):
                return "(LStore %s %s)" % (t, self.expr(e["inner"][0]))
            raise Cannot("store through a pointer to " + node_type(e))
        if k == "ArraySubscriptExpr":
            t = node_ity(e)
            if t in ("I8", "U8"):
                return "(LStore %s (EBin OAdd %s %s))" % (t, self.expr(e["inner"][0]), self.expr(e["inner"][1]))
            if node_type(e).endswith("*"):
                return "(LIndex %s %s)" % (self.expr(e["inner"][0]), self.expr(e["inner"][1]))
            raise Cannot("store into an array of " + node_type(e))
        raise Cannot("assignment to a " + str(k))

    def incdec(self, target, op):
        t = node_ity(target)
        cur = self.expr(target)
        delta = "OAdd" if op == "++" else "OSub"
        if is_pointer_type(target):
            new = "(EBin %s %s (EConst 1))" % (delta, cur)
        else:
            if not t:
                raise Cannot("increment of " + node_type(target))
            new = "(EArith %s (EBin %s %s (EConst 1)))" % (t, delta, cur)
        return "(SAssign %s %s)" % (self.lval(target), new)

    def assignment(self, e):
        """a statement for an assignment-like expression node, or None"""
        k = e.get("kind")
        if k == "BinaryOperator" and e["opcode"] == "=":
            a, b = e["inner"]
            return "(SAssign %s %s)" % (self.lval(a), self.expr(b))
        if k == "CompoundAssignOperator":
            a, b = e["inner"]
            op = {"+=": "OAdd", "-=": "OSub", "*=": "OMul", "/=": "ODiv", "%=": "OMod"}.get(e["opcode"])
            if not op:
                raise Cannot("operator " + e["opcode"])
            x = "(EBin %s %s %s)" % (op, self.expr(a), self.expr(b))
            if not is_pointer_type(a):
                ct = (e.get("computeResultType") or {}).get("qualType")
                t = (ity_of(ct) if ct else None) or node_ity(a)
                if not t:
                    raise Cannot("compound assignment of type " + node_type(a))
                x = "(EArith %s %s)" % (t, x)
                ta = node_ity(a)
                if ta and ta != t:
                    x = "(ECast %s %s)" % (ta, x)
            return "(SAssign %s %s)" % (self.lval(a), x)
        if k == "UnaryOperator" and e.get("opcode") in ("++", "--"):
            return self.incdec(e["inner"][0], e["opcode"])
        return None

    # -- statements ------------------------------------------------------------------------
    def seq(self, items):
        items = [i for i in items if i != "SSkip"]
        if not items:
            return "SSkip"
        r = items[-1]
        for i in reversed(items[:-1]):
            r = "(SSeq %s\n %s)" % (i, r)
        return r

    def with_post(self, build):
        """run `build` (which translates one full expression) and append the post-increments it met"""
        saved, self.pending_post = self.pending_post, []
        s = build()
        post, self.pending_post = self.pending_post, saved
        return self.seq([s] + post)

    def expr_stmt(self, e):
        e0 = e
        while e.get("kind") in ("ParenExpr",) or (e.get("kind") == "CStyleCastExpr" and e.get("castKind") == "ToVoid"):
            if e.get("kind") == "CStyleCastExpr":
                inner = self.unparen(e["inner"][0])
                if inner.get("kind") == "DeclRefExpr":
                    return "SSkip"          # (void)parameter;
            e = e["inner"][0]
        if e.get("kind") == "BinaryOperator" and e.get("opcode") == ",":
            return self.seq([self.expr_stmt(x) for x in e["inner"]])
        return self.with_post(lambda: self.assignment(e) or "(SExpr %s)" % self.expr(e))

    def find_assign_in_cond(self, c):
        """`(x = e) > 0` style conditions: returns (assignment node, condition with the assignment
        replaced by its target) or None"""
        found = []

        def rewrite(n):
            n2 = self.unparen(n)
            if n2.get("kind") == "BinaryOperator" and n2.get("opcode") == "=":
                found.append(n2)
                return n2["inner"][0]
            if "inner" in n:
                m = dict(n)
                m["inner"] = [rewrite(x) if isinstance(x, dict) else x for x in n["inner"]]
                return m
            return n
        c2 = rewrite(c)
        if not found:
            return None
        if len(found) > 1:
            raise Cannot("several assignments in one condition")
        return found[0], c2

    def loop(self, cond, body, incr):
        if cond is None:
            return "(SLoop (EConst 1) %s %s)" % (body, incr)
        fa = self.find_assign_in_cond(cond)
        if fa:
            asg, c2 = fa
            return "(SLoop (EConst 1) (SSeq %s (SIf %s %s SBreak)) %s)" % (self.assignment(asg), self.expr(c2), body, incr)
        saved, self.pending_post = self.pending_post, []
        c = self.expr(cond)
        if self.pending_post:
            raise Cannot("post-increment in a loop condition")
        self.pending_post = saved
        return "(SLoop %s %s %s)" % (c, body, incr)

    def has_continue(self, n):
        k = n.get("kind")
        if k == "ContinueStmt":
            return True
        if k in ("WhileStmt", "ForStmt", "DoStmt"):
            return False
        return any(self.has_continue(c) for c in n.get("inner", []) if isinstance(c, dict))

    def has_break(self, n, depth=0):
        """a `break` that would refer to the enclosing switch (not inside a nested loop/switch)"""
        k = n.get("kind")
        if k == "BreakStmt":
            return True
        if k in ("WhileStmt", "ForStmt", "DoStmt", "SwitchStmt"):
            return False
        return any(self.has_break(c) for c in n.get("inner", []) if isinstance(c, dict))

    def switch(self, s):
        scrut, body = s["inner"][0], s["inner"][-1]
        if body.get("kind") != "CompoundStmt":
            raise Cannot("switch without a block")
        self.tmp += 1
        sw = "__switch%d" % self.tmp
        self.locals.add(sw)
        groups, cur = [], None      # [(labels, statements)]

        def open_labels(n):
            """peel CaseStmt/DefaultStmt wrappers: returns labels and the first statement"""
            labels = []
            while n.get("kind") in ("CaseStmt", "DefaultStmt"):
                if n["kind"] == "CaseStmt":
                    labels.append(self.expr(n["inner"][0]))
                    n = n["inner"][-1]
                else:
                    labels.append(None)
                    n = n["inner"][-1]
            return labels, n
        for c in body.get("inner", []):
            if c.get("kind") in ("CaseStmt", "DefaultStmt"):
                labels, first = open_labels(c)
                if cur is not None and cur[1] and not self.ends_flow(cur[1][-1]):
                    raise Cannot("switch case falls through")
                if cur is not None and not cur[1]:
                    labels = cur[0] + labels
                    groups.pop()
                cur = (labels, [first])
                groups.append(cur)
            else:
                if cur is None:
                    raise Cannot("statement before the first case")
                cur[1].append(c)
        all_labels = [l for g in groups for l in g[0] if l is not None]
        chain = "SSkip"
        default_body = None
        arms = []
        for labels, stmts in groups:
            if stmts and stmts[-1].get("kind") == "BreakStmt":
                stmts = stmts[:-1]
            if stmts and stmts[-1].get("kind") == "CompoundStmt":
                inner = stmts[-1].get("inner", [])
                if inner and inner[-1].get("kind") == "BreakStmt":
                    stmts = stmts[:-1] + [dict(stmts[-1], inner=inner[:-1])]
            if any(self.has_break(x) for x in stmts):
                raise Cannot("break nested inside a switch case")
            b = self.seq([self.stmt(x) for x in stmts])
            if None in labels:
                default_body = b
            conds = [l for l in labels if l is not None]
            if conds:
                c = None
                for l in conds:
                    t = "(EBin OEq (EVar %s) %s)" % (coq_string(sw), l)
                    c = t if c is None else "(EBin OOr %s %s)" % (c, t)
                arms.append((c, b))
        chain = default_body or "SSkip"
        for c, b in reversed(arms):
            chain = "(SIf %s %s %s)" % (c, b, chain)
        return "(SSeq (SAssign (LVar %s) %s) %s)" % (coq_string(sw), self.expr(scrut), chain)

    def ends_flow(self, n):
        k = n.get("kind")
        if k in ("BreakStmt", "ReturnStmt", "ContinueStmt"):
            return True
        if k == "CompoundStmt" and n.get("inner"):
            return self.ends_flow(n["inner"][-1])
        return False

    def stmt(self, s):
        k = s.get("kind")
        if k == "CompoundStmt":
            return self.seq([self.stmt(c) for c in s.get("inner", [])])
        if k == "NullStmt":
            return "SSkip"
        if k == "DeclStmt":
            out = []
            for d in s.get("inner", []):
                if d.get("kind") != "VarDecl":
                    raise Cannot("declaration of a " + str(d.get("kind")))
                if d.get("storageClass") == "static":
                    raise Cannot("static local " + d["name"])
                nm = d["name"]
                self.locals.add(nm)
                q = node_type(d)
                m = re.match(r"^(?:const )?(?:unsigned )?char ?\[(\d+)\]$", q)
                if m:
                    out.append("(SAssign (LVar %s) (ECall \"stack_array\" [EConst %s]))" % (coq_string(nm), m.group(1)))
                    continue
                if "__va_list_tag" in q or q == "va_list":
                    self.valists.add(nm)
                    out.append("(SAssign (LVar %s) (EConst 0))" % coq_string(nm))     # opaque: only handed on
                    continue
                if q.endswith("]"):
                    raise Cannot("local array " + q)
                inits = [c for c in d.get("inner", []) if isinstance(c, dict) and c.get("kind") not in ("FullComment",)]
                if inits:
                    if "struct " in q and not q.endswith("*"):
                        raise Cannot("struct-valued local with an initialiser")
                    init = inits[-1]
                    out.append(self.with_post(lambda: "(SAssign (LVar %s) %s)" % (coq_string(nm), self.expr(init))))
            return self.seq(out)
        if k == "IfStmt":
            parts = s["inner"]
            c = parts[0]
            pre = None
            fa = self.find_assign_in_cond(c)
            if fa:
                pre, c = self.assignment(fa[0]), fa[1]
            a = self.stmt(parts[1])
            b = self.stmt(parts[2]) if len(parts) > 2 else "SSkip"
            saved, self.pending_post = self.pending_post, []
            ce = self.expr(c)
            if self.pending_post:
                raise Cannot("post-increment in an if condition")
            self.pending_post = saved
            if pre:
                return "(SSeq %s (SIf %s %s %s))" % (pre, ce, a, b)
            return "(SIf %s %s %s)" % (ce, a, b)
        if k == "WhileStmt":
            return self.loop(s["inner"][0], self.stmt(s["inner"][-1]), "SSkip")
        if k == "ForStmt":
            init, _condvar, cond, inc, body = s["inner"]
            i = "SSkip"
            if init and init.get("kind"):
                i = self.stmt(init) if init["kind"] == "DeclStmt" else self.expr_stmt(init)
            incs = "SSkip"
            if inc and inc.get("kind"):
                incs = self.expr_stmt(inc)
            return self.seq([i, self.loop(cond if cond and cond.get("kind") else None, self.stmt(body), incs)])
        if k == "ReturnStmt":
            if s.get("inner"):
                saved, self.pending_post = self.pending_post, []
                r = "(SReturn (Some %s))" % self.expr(s["inner"][0])
                if self.pending_post:
                    raise Cannot("post-increment in a return")
                self.pending_post = saved
                return r
            return "(SReturn None)"
        if k == "BreakStmt":
            return "SBreak"
        if k == "ContinueStmt":
            return "SContinue"
        if k == "SwitchStmt":
            return self.switch(s)
        if k == "DoStmt":
            body, cond = s["inner"][0], s["inner"][1]
            if self.has_continue(body):
                raise Cannot("continue inside do-while")
            if self.find_assign_in_cond(cond):
                raise Cannot("assignment in a do-while condition")
            return "(SLoop (EConst 1) (SSeq %s (SIf %s SSkip SBreak)) SSkip)" % (self.stmt(body), self.expr(cond))
        if k in ("GotoStmt", "LabelStmt"):
            raise Cannot("statement kind " + k)
        # expression statement
        return self.expr_stmt(s)

    def translate(self):
        body = self.stmt(body_of(self.fn))
        ps = "[" + "; ".join(coq_string(p) for p in self.params) + "]"
        return "mkfun %s %s\n %s" % (coq_string(self.name), ps, body)


HEADER = """(* GENERATED by tools/srccode.py from /repo's current sources - do not edit.
   Whole functions translated construct by construct into the language of CLite.v. *)
From Coq Require Import List ZArith String.
From CgreenVerif Require Import CLite.
Import ListNotations.
Local Open Scope string_scope.
Local Open Scope list_scope.
Local Open Scope Z_scope.

"""


def generate(repo, gen_dir, pinned_dir, bdir=None):
    bdir = bdir or os.path.join(os.path.dirname(gen_dir), "..", "_work", "build-hooks")
    os.makedirs(gen_dir, exist_ok=True)
    pinned_path = os.path.join(pinned_dir, "code.json")
    pinned = json.load(open(pinned_path)) if os.path.exists(pinned_path) else {}
    status, current = {}, {}
    tus = {}
    files = {}
    for prog, rel0, fns0 in PROGRAMS:
        out = [HEADER]
        names = []
        pairs = [(rel0, f) for f in fns0] if isinstance(rel0, str) else [(r, f) for r, fs in zip(rel0, fns0) for f in fs]
        for rel, f in pairs:
            key = "code_" + f
            try:
                if rel not in tus:
                    tus[rel] = load_tu(repo, rel, bdir)
                if f not in tus[rel]["funs"]:
                    raise Cannot("function %s not found in %s" % (f, rel))
                text = Fn(tus[rel], f).translate()
                status[key] = "derived"
                if key in pinned and pinned[key] != text:
                    status[key] = "derived (differs from pinned)"
            except Exception as ex:
                if key not in pinned:
                    raise
                text = pinned[key]
                status[key] = "pinned (not re-derived: %s)" % (str(ex)[:80])
            current[key] = text
            out.append("(* from %s:%s *)\nDefinition %s : fundef :=\n %s.\n\n" % (rel, f, key, text))
            names.append(key)
        out.append("Definition prog_%s : list (string * fundef) :=\n  [%s].\n\n" % (
            prog, ";\n   ".join("(%s, %s)" % (coq_string(n[5:]), n) for n in names)))
        files["Code_%s.v" % prog] = "".join(out)
    # one file per program (a proof about one program is not re-checked when another program changes)
    files["Code.v"] = "(* GENERATED by tools/srccode.py - all translated programs *)\n" + "".join(
        "From CgreenVerif.Gen Require Export Code_%s.\n" % prog for prog, _, _ in PROGRAMS)
    for fn, new in files.items():
        path = os.path.join(gen_dir, fn)
        if not os.path.exists(path) or open(path).read() != new:
            open(path, "w").write(new)
    if os.environ.get("VERIF_PIN") == "1":
        os.makedirs(pinned_dir, exist_ok=True)
        json.dump(current, open(pinned_path, "w"), indent=1, sort_keys=True)
    return status


if __name__ == "__main__":
    root = os.path.dirname(os.path.dirname(os.path.abspath(__file__)))
    st = generate(os.environ.get("VERIF_REPO", "/repo"), os.path.join(root, "coq", "Gen"),
                  os.path.join(root, "coq", "Pinned"))
    for k, v in st.items():
        print("%-40s %s" % (k, v))
