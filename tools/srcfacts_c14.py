"""Translator items for C14: the exit status of the alarm handler, of die(), the validation
expression and the parsing of CGREEN_PER_TEST_TIMEOUT, and where it is validated / armed."""
from srcfacts import Cannot, walk, body_of, strip, member_path, expr_bool
from srcfacts_c12 import calls_of, need


def callee(n):
    c = strip(n["inner"][0])
    return c["referencedDecl"]["name"] if c.get("kind") == "DeclRefExpr" else None


def int_const(e):
    e = strip(e)
    while e.get("kind") in ("ImplicitCastExpr", "CStyleCastExpr", "ParenExpr"):
        e = strip(e["inner"][0])
    if e.get("kind") == "IntegerLiteral":
        return int(e["value"])
    return None


def exit_status_of(funs, fn, depth=0, arg=None):
    """the constant every exit/_exit reachable from fn (one helper level) is called with"""
    need(depth < 3 and fn in funs, "exit status of " + fn)
    f = funs[fn]
    params = [p["name"] for p in f.get("inner", []) if p.get("kind") == "ParmVarDecl" and "name" in p]
    st = set()
    for n in walk(body_of(f)):
        if n.get("kind") != "CallExpr":
            continue
        nm = callee(n)
        if nm in ("exit", "_exit"):
            v = int_const(n["inner"][1])
            if v is None:
                a = strip(n["inner"][1])
                while a.get("kind") == "ImplicitCastExpr":
                    a = strip(a["inner"][0])
                if a.get("kind") == "DeclRefExpr" and a["referencedDecl"]["name"] in params and arg is not None:
                    v = arg
            need(v is not None, fn + ": exit with a non-constant status")
            st.add(v)
        elif nm in funs and nm != fn and nm not in ("getenv",):
            if any(callee(m) in ("exit", "_exit") for m in walk(body_of(funs[nm])) if m.get("kind") == "CallExpr"):
                a = int_const(n["inner"][1]) if len(n["inner"]) > 1 else None
                st.add(exit_status_of(funs, nm, depth + 1, a))
    need(len(st) == 1, fn + ": exit statuses %s" % sorted(st))
    return st.pop()


def alarm_handler(P):
    for n in walk(body_of(P["funs"]["die_in"])):
        if n.get("kind") == "CallExpr" and callee(n) == "signal":
            for m in walk(n["inner"][2]):
                if m.get("kind") == "DeclRefExpr" and m["referencedDecl"].get("kind") == "FunctionDecl":
                    return m["referencedDecl"]["name"]
    raise Cannot("die_in: signal(SIGALRM, handler)")


def parse_kind(R):
    f = R["funs"]["per_test_timeout_value"]
    if calls_of(body_of(f), "atoi") and not calls_of(body_of(f), "strtol"):
        return "atoi_m"
    if calls_of(body_of(f), "strtol"):
        # strict form: rejects no digits, trailing characters and values outside int by returning 0
        eq_start = ne_end = ret0 = False
        for n in walk(body_of(f)):
            if n.get("kind") == "BinaryOperator" and n.get("opcode") == "==":
                names = {strip(x)["referencedDecl"]["name"] for x in n["inner"] if strip(x).get("kind") == "DeclRefExpr"}
                names |= {strip(strip(x)["inner"][0])["referencedDecl"]["name"] for x in n["inner"]
                          if strip(x).get("kind") == "ImplicitCastExpr" and strip(strip(x)["inner"][0]).get("kind") == "DeclRefExpr"}
                if {"end", "timeout_string"} <= names:
                    eq_start = True
            if n.get("kind") == "BinaryOperator" and n.get("opcode") == "!=":
                if any(m.get("kind") == "UnaryOperator" and m.get("opcode") == "*" for m in walk(n["inner"][0])):
                    ne_end = True
            if n.get("kind") == "IfStmt":
                for m in walk(n["inner"][1]):
                    if m.get("kind") == "ReturnStmt" and int_const(m["inner"][0]) == 0:
                        ret0 = True
        need(eq_start and ne_end and ret0, "per_test_timeout_value: strtol without the full-consumption check")
        return "strtol_full_m"
    raise Cannot("per_test_timeout_value: neither atoi nor strtol")


def invalid_expr(R):
    f = R["funs"]["validate_per_test_timeout_value"]
    for n in body_of(f).get("inner", []):
        if n.get("kind") == "IfStmt":
            need(calls_of(n["inner"][1], "die"), "validate: die() in the branch")
            return "fun (timeout : Z) => " + expr_bool(n["inner"][0], {"timeout": "timeout"})
    raise Cannot("validate_per_test_timeout_value shape")


def guarded_first(R, fn):
    ss = [s for s in body_of(R["funs"][fn]).get("inner", []) if s.get("kind") != "DeclStmt"]
    need(ss and ss[0].get("kind") == "IfStmt", fn + ": starts with the timeout check")
    c = ss[0]["inner"][0]
    return bool(calls_of(c, "per_test_timeout_defined")) and bool(calls_of(ss[0]["inner"][1], "validate_per_test_timeout_value"))


def armed(R):
    f = R["funs"]["run_the_test_code"]
    for n in walk(body_of(f)):
        if n.get("kind") == "IfStmt" and calls_of(n["inner"][0], "per_test_timeout_defined"):
            d = calls_of(n["inner"][1], "die_in")
            if len(d) == 1 and calls_of(d[0], "per_test_timeout_value"):
                return True
    return False


def register(add, tu):
    R = lambda: tu("src/runner.c")
    P = lambda: tu("src/posix_runner_platform.c")
    add("timeout_exit_status", "Z", lambda: "(%d)" % exit_status_of(P()["funs"], alarm_handler(P())), "src/posix_runner_platform.c:die_in, alarm handler")
    add("die_exit_status", "Z", lambda: "(%d)" % exit_status_of(R()["funs"], "die"), "src/runner.c:die")
    add("timeout_invalid_src", "Z -> bool", lambda: invalid_expr(R()), "src/runner.c:validate_per_test_timeout_value")
    add("timeout_parse_src", "list N -> Z", lambda: parse_kind(R()), "src/runner.c:per_test_timeout_value")
    add("timeout_validated_before_run", "bool",
        lambda: "true" if guarded_first(R(), "run_test_suite") and guarded_first(R(), "run_single_test") else "false",
        "src/runner.c:run_test_suite, run_single_test")
    add("timeout_armed_per_test", "bool", lambda: "true" if armed(R()) else "false", "src/runner.c:run_the_test_code")
