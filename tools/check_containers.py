"""C20: cgreen's own bookkeeping (CgreenVector, TestSuite entry array, breadcrumb trail, name
buffers) is safe for any count / name length and shows no change at growth boundaries."""
import os, re, shutil, subprocess, tempfile
from concurrent.futures import ThreadPoolExecutor
import vlib, layerc as L

TRUSTED = [
    "Coq 8.16.1 kernel (full .vo build; vm_compute only for examples and witnesses; no native_compute)",
    "tools/srcfacts_c20.py + clang JSON AST: guards, index expressions, loop condition and growth step of src/vector.c, the realloc count and write index of add_test_/add_suite_ (src/suite.c), the growth test and indices of src/breadcrumb.c are re-derived from source on every run; a function whose statement skeleton changed is 'not re-derived' and only the sanitizer correspondence covers it",
    "tools/srcfacts_buffers.py + clang JSON AST: every writable char array of the reporters, tools and helpers and every call that writes a string into one (size arguments, format conversions with their widest output, literal and caller-supplied arguments, inlined helper calls, callbacks as loops) is re-derived from source on every run as a program of coq/Buffers.v; functions it cannot express are listed in coverage.buffer_table.unmodelled",
    "Buffers.step is the assumed behaviour of the C library calls: sprintf/strcpy/strcat store the text and its NUL, snprintf/vsnprintf/fgets/strftime at most n bytes NUL included, strncat at most n characters and a NUL, `sizeof - strlen - k` wraps as size_t",
    "extraction: ExtrOcamlBasic only; ocaml/h_vector.ml glue",
    "correspondence: harness/vector_vm.c and harness/scn_driver.c built with AddressSanitizer+UBSan (-fno-sanitize-recover=all) against a sanitizer build of /repo's working tree; differential testing",
    "modelled, not verified: realloc (keeps the common prefix), the C semantics of everything outside the modelled containers - for the rest of cgreen's code the sanitizer runs are testing, not proof (no C semantics such as VST/CompCert is installed)",
]

ASAN_ENV = {"ASAN_OPTIONS": "detect_leaks=0:abort_on_error=0:exitcode=99:allocator_may_return_null=1",
            "UBSAN_OPTIONS": "print_stacktrace=1:halt_on_error=1:exitcode=99"}


def asan_summary(err):
    m = re.search(r"ERROR: AddressSanitizer: (\S+).*?\n((?:\s+#\d+ .*\n){1,12})", err, re.S)
    if m:
        fr = re.findall(r"#\d+ \S+ in (\S+) (\S+)", m.group(2))
        own = [f for f in fr if ("/repo/" in f[1] or "src/" in f[1]) and "libsanitizer" not in f[1]]
        f = (own or fr or [("?", "?")])[0]
        return "%s in %s (%s)" % (m.group(1), f[0], os.path.basename(f[1]))
    m = re.search(r"(\S+:\d+:\d+): runtime error: (.*)", err)
    if m:
        return "UBSan: %s at %s" % (re.sub(r"0x[0-9a-f]+", "0x..", m.group(2)), m.group(1))
    return None


# ------------------------------------------------------------------------------------------
def oracle_vector(ops):
    d, out = [], []
    for o in ops:
        k = o[0]
        if k == "a":
            d.append(o[1])
        elif k == "r":
            if 0 <= o[1] < len(d):
                out.append(str(d.pop(o[1])))
            else:
                out.append("P")
        elif k == "g":
            out.append(str(d[o[1]]) if 0 <= o[1] < len(d) else "P")
        else:
            out.append(str(len(d)))
    return " ".join(out)


def gen_vector(chk, step):
    rng = chk.rng
    cases = []
    nxt = [0]

    def val():
        nxt[0] += 1
        return nxt[0]
    sizes = sorted({0, 1, 2, 3, step - 1, step, step + 1, 2 * step - 1, 2 * step, 2 * step + 1, 3 * step, 5 * step} -
                   {-1})
    if chk.tier == "thorough":
        sizes = sorted(set(sizes) | {step // 2, 3 * step + 1, 4 * step, 5 * step + 1, 7 * step})
    for n in sizes:
        nxt[0] = 0
        base = [("a", val()) for _ in range(n)]
        probes = [("g", 0), ("g", n - 1), ("g", n), ("g", -1), ("s",)]
        cases.append(base + probes)
        for where in ("head", "mid", "tail"):
            pos = {"head": 0, "mid": n // 2, "tail": n - 1}[where]
            cases.append(base + [("r", pos), ("s",), ("g", pos), ("g", n - 2), ("g", n - 1), ("r", n), ("r", -1), ("s",)])
        # drain completely (alternating head / middle / tail), then reuse across the boundary again
        ops = list(base)
        m = n
        i = 0
        while m > 0:
            pos = [0, m // 2, m - 1][i % 3]
            ops.append(("r", pos)); m -= 1; i += 1
        ops.append(("s",))
        for extra in (1, step + 1):
            o2 = list(ops) + [("a", val()) for _ in range(extra)] + [("g", 0), ("g", extra - 1), ("s",)]
            o2 += [("r", 0)] * extra + [("s",), ("a", val()), ("g", 0)]
            cases.append(o2)
        # add/remove ping-pong exactly at the boundary
        cases.append(base + [("r", n - 1), ("a", val()), ("a", val()), ("r", 0), ("a", val()), ("s",), ("g", n)] if n else base + [("r", 0)])
    # used as a queue around the capacity of the store: fill to (just below) a growth boundary, take
    # h items from the head, add until the store has to make room, then look at every position
    for n in (step - 1, step, 2 * step):
        for h in ((1, 3) if chk.tier == "quick" else (1, 2, 3, step // 2, step - 1)):
            nxt[0] = 0
            ops = [("a", val()) for _ in range(n)] + [("r", 0)] * h + [("a", val()) for _ in range(h + 2)]
            size = n + 2
            ops += [("s",)] + [("g", i) for i in sorted({0, 1, size // 2, size - 3, size - 2, size - 1, size})]
            ops += [("r", 0), ("g", 0), ("g", size - 2), ("s",)]
            cases.append(ops)
    # random histories
    for _ in range(60 if chk.tier == "quick" else 3000):
        nxt[0] = 0
        n = rng.choice([0, 1, 5, step - 2, step, step + 3, 2 * step])
        ops = [("a", val()) for _ in range(n)]
        size = n
        for _ in range(rng.choice([5, 20, 60])):
            r = rng.random()
            if r < 0.4:
                ops.append(("a", val())); size += 1
            elif r < 0.8:
                pos = rng.choice([0, size - 1, size, size // 2, rng.randrange(-2, size + 3)])
                ops.append(("r", pos))
                if 0 <= pos < size:
                    size -= 1
            elif r < 0.95:
                ops.append(("g", rng.choice([0, size - 1, size, rng.randrange(-2, size + 3)])))
            else:
                ops.append(("s",))
        cases.append(ops)
    # every history of <= 5 ops over a tiny alphabet (small-scope exhaustive)
    import itertools
    alpha = [("a", 1), ("r", 0), ("r", 1), ("g", 0), ("g", 1), ("s",)]
    for ln in range(1, 4 if chk.tier == "quick" else 6):
        for t in itertools.product(alpha, repeat=ln):
            k = 0
            ops = []
            for o in t:
                if o[0] == "a":
                    k += 1
                    ops.append(("a", k))
                else:
                    ops.append(o)
            cases.append(ops)
    return cases


def fmt_vec(ops):
    impl = "V " + ";".join(o[0] + (str(o[1]) if len(o) > 1 else "") for o in ops)
    model = "(V " + " ".join("(%s%s)" % (o[0], " %d" % o[1] if len(o) > 1 else "") for o in ops) + ")"
    return impl, model


def gen_suite(chk):
    rng = chk.rng
    cases = []
    shapes = ["t", "s", "ts", "st", "tst", "sst", "ttst", "tsst", "sts", "ssst", "tttst", "ttttst", "sssss" + "t", "t" * 7 + "s" + "t" * 3]
    for n in (15, 16, 17, 31, 32, 33, 63, 64, 65, 99, 100, 101, 127, 128, 129):
        shapes += ["t" * n, "t" * (n - 1) + "s" + "t", "t" * n + "s" + "t" * 3, "s" * 3 + "t" * n]
    for _ in range(40 if chk.tier == "quick" else 1500):
        shapes.append("".join(rng.choice("ts" if rng.random() < 0.7 else "tttts") for _ in range(rng.choice([3, 6, 9, 20, 70, 130]))))
    for sh in shapes:
        cases.append([(k, i + 1) for i, k in enumerate(sh)])
    return cases


def gen_crumb(chk):
    rng = chk.rng
    cases = []
    for depth in (1, 2, 3, 10, 99, 100, 101, 150, 400):
        ops = [("p", i + 1) for i in range(depth)] + [("o",)] * depth
        cases.append(ops)
        # re-push after popping (space is kept)
        cases.append(ops + [("p", 1000 + i) for i in range(depth + 1)] + [("o",)] * (depth + 1))
    for _ in range(40 if chk.tier == "quick" else 1500):
        d, ops, k = 0, [], 0
        for _ in range(rng.choice([4, 10, 40, 200])):
            if d == 0 or rng.random() < 0.55:
                k += 1
                ops.append(("p", k)); d += 1
            else:
                ops.append(("o",)); d -= 1
        cases.append(ops)
    return cases


def run_vm(drv, lines):
    """run the sanitizer-built vm over the lines; a crash consumes one case (reported) and the
    rest is resumed.  Returns list of (output or None, sanitizer summary or None)."""
    res = []
    i = 0
    env = dict(os.environ); env.update(ASAN_ENV)
    while i < len(lines):
        p = subprocess.run([drv], input=("\n".join(lines[i:]) + "\n").encode(), stdout=subprocess.PIPE,
                           stderr=subprocess.PIPE, env=env, timeout=900)
        complete = p.stdout.decode("latin-1").split("\n")[:-1][:len(lines) - i]
        for o in complete:
            res.append((o.strip(), None))
        i += len(complete)
        if i < len(lines):
            err = p.stderr.decode("latin-1")
            res.append((None, asan_summary(err) or "process died (status %d): %s" % (p.returncode, err[-300:])))
            i += 1
    return res


def check_C20(chk):
    build_h = vlib.build_repo("hooks")
    build = vlib.build_repo("asan")
    vm = vlib.build_driver("vector_vm", build)
    scn = vlib.build_driver("scn_driver", build, libs=("-lcgreen", "-lxml2"))
    chk.prove(["Properties_C20.v", "Properties_C20_buffers.v", "Properties_Code_Xml.v", "Properties_Code_Percent.v", "Properties_Code_Tool.v"])
    chk.cov["trusted_base"] = TRUSTED + [
        "Properties_Code_Xml.v / Properties_Code_Percent.v / Properties_Code_Tool.v: escaped()/concat_escaped()/concat() of src/xml_reporter.c, double_all_percent_signs_in() with its helpers (src/message_formatting.c) and test_matches_pattern() with its helpers (tools/runner.c), translated whole on every run, are proved to run Fine on every text of any length - CLite's semantics is strict, so that is: no byte read or written outside a block, no use after free or realloc, no overlapping copy, no signed overflow; trusted in that link: the translator and CLite's models of the libc functions these functions call",
        "axioms: see coverage.print_assumptions"]
    buffer_table(chk)
    step = 100
    try:
        m = re.search(r"Definition vector_src : vsrc :=\s*mkvsrc \((\d+)\)", open(os.path.join(vlib.COQ, "Gen", "Facts.v")).read())
        step = int(m.group(1))
    except Exception:
        chk.notes.append("growth step not read from Gen/Facts.v; generators use 100")
    step = max(2, min(step, 400))
    gen = chk.cov.get("gen_items", {})
    for k in ("vector_src", "suite_test_src", "suite_suite_src", "crumb_src"):
        if not str(gen.get(k, "")).startswith("derived"):
            chk.notes.append("%s: %s" % (k, gen.get(k)))

    # ---- containers through the vm: model (extracted, translated sources) vs implementation vs oracle
    vec = gen_vector(chk, step)
    sui = gen_suite(chk)
    cru = gen_crumb(chk)
    impl_lines, model_lines, oracles, kinds = [], [], [], []
    for ops in vec:
        i, m = fmt_vec(ops)
        impl_lines.append(i); model_lines.append(m); oracles.append(oracle_vector(ops)); kinds.append("vector")
    for ops in sui:
        impl_lines.append("S " + ";".join("%s%d" % o for o in ops))
        model_lines.append("(S " + " ".join("(%s %d)" % o for o in ops) + ")")
        oracles.append(" ".join([str(len(ops))] + ["%s%d" % o for o in ops])); kinds.append("suite")
    for ops in cru:
        impl_lines.append("C " + ";".join(o[0] + (str(o[1]) if len(o) > 1 else "") for o in ops))
        model_lines.append("(C " + " ".join("(%s%s)" % (o[0], " %d" % o[1] if len(o) > 1 else "") for o in ops) + ")")
        st, outs = [], []
        for o in ops:
            if o[0] == "p":
                st.append(o[1])
            else:
                st.pop()
            outs.append(str(st[-1]) if st else "-")
        oracles.append(" ".join(outs)); kinds.append("crumb")
    impl = run_vm(vm, impl_lines)
    model = vlib.run_model("vector", model_lines)
    for il, ml, orc, kind, (o, san), m in zip(impl_lines, model_lines, oracles, kinds, impl, model):
        chk.case(il)
        chk.count("container:" + kind)
        chk.count("ops:%s" % ("<=10" if il.count(";") < 10 else "<=150" if il.count(";") < 150 else ">150"))
        chk.cov["disagreements_checked"] += 1
        rp = {"case": il[:3000], "how": "echo '<case>' | ASAN_OPTIONS=detect_leaks=0 _work/bin-asan/vector_vm", "model_case": ml[:3000]}
        if kind == "suite" and m not in ("OOB", "FUEL"):
            # the model holds the ids only; the kind letter is the registration's
            m = " ".join([m.split(" ")[0]] + [k + v for (k, _), v in zip(_ops_of(il), m.split(" ")[1:])])
        if san is not None:
            chk.violation("%s-memory" % kind, "undefined behaviour in cgreen's %s code: %s; history: %s" % (kind, san, il[:160]), dict(rp, sanitizer=san))
            if m not in ("OOB",):
                chk.disagreement("%s: implementation out of bounds (%s), model says %s" % (il[:120], san, m[:80]), rp)
            continue
        if m in ("OOB", "FUEL"):
            chk.disagreement("%s: model predicts %s, the sanitizer saw nothing" % (il[:120], m), rp)
        elif o != m:
            chk.disagreement("%s: implementation [%s] model [%s]" % (il[:120], o[:200], m[:200]), rp)
        if o != orc:
            chk.violation("%s-results" % kind, "%s shows [%s] but the plain list shows [%s] (history %s)" % (kind, o[:200], orc[:200], il[:160]), rp)
        chk.sample({"case": il[:80], "result": (o or "")[:80]}, limit=4)

    # ---- whole runs under the sanitizers: counts, nesting depth, name lengths, every reporter
    runs = gen_runs(chk, step)
    with ThreadPoolExecutor(vlib.NPROC) as ex:
        results = list(ex.map(lambda c: L.run_impl(scn, c[1], c[2], c[3], timeout=120, env_extra=ASAN_ENV), runs))
    for (label, root, rep, mode, expect), r in zip(runs, results):
        chk.case((label, rep, mode))
        chk.count("run:" + label.split(" ")[0])
        chk.count("reporter:" + rep)
        rp = {"what": label, "reporter": rep, "mode": mode,
              "scenario": L.scn_text(root, rep, mode, "events.log")[:20000],
              "how": "write the scenario to a file; ASAN_OPTIONS=detect_leaks=0 _work/bin-asan/scn_driver <file>"}
        san = asan_summary(r.stderr) or asan_summary(r.stdout)
        if san:
            sig = "run-memory:" + re.sub(r"[^A-Za-z0-9_]+", "-", san)[:80]
            chk.violation(sig, "undefined behaviour inside cgreen during a run (%s, %s reporter): %s" % (label, rep, san), dict(rp, sanitizer=san, stderr=r.stderr[-1500:]))
            continue
        if r.timeout:
            chk.violation("run-hang", "run did not terminate (%s, %s reporter)" % (label, rep), rp)
            continue
        if r.exit not in (0, None) and r.exit > 0 and ("File name too long" in r.stderr or "exceeds PATH_MAX" in r.stderr):
            # the xml reporters name one file per suite path; the file system refuses names beyond
            # NAME_MAX and the run ends loudly with failure status: an OS limit, not cgreen's memory
            chk.count("os-limit: file name beyond NAME_MAX/PATH_MAX (run refused loudly)")
            continue
        tot = None
        for row in L.log_sdone(r):
            if row[2] == 0:
                tot = row[3]
        if r.exit != 0 or tot is None or tot[0] != expect or tot[1:] != (0, 0, 0):
            chk.violation("run-results", "%s under the %s reporter: exit %s, totals %s, expected %d passes and nothing else" % (label, rep, r.exit, tot, expect),
                          dict(rp, stderr=r.stderr[-800:], stdout=r.stdout[-400:]))
    tool_runs(chk, build)
    return chk.finish()


# functions with character arrays that tools/srcfacts_buffers.py cannot express as a Buffers.v program; the
# sanitizer runs below carry them (indent: printerdepth runs; the cdash reporter is outside C20's anchors)
KNOWN_UNMODELLED = {"src/xml_reporter.c:indent", "src/cdash_reporter.c:cdash_destroy_reporter",
                    "src/cdash_reporter.c:create_cdash_reporter"}


def _names_in(text):
    return ["".join(chr(int(x)) for x in re.findall(r"(\d+)%N", m)) for m in re.findall(r"\[((?:\d+%N(?:; )?)+)\]", text)]


def buffer_table(chk):
    """what the buffer translator produced on this run, and - when the table does not pass the analysis - which
    functions fail it"""
    facts = os.path.join(vlib.COQ, "Gen", "Facts.v")
    try:
        text = open(facts).read()
    except OSError:
        return
    m = re.search(r"Definition buffer_unmodelled : list \(list N\) :=\s*\(\*(.*?)\*\)\s*(\[.*?\])\.\n", text, re.S)
    n_bufs = len(re.findall(r"%N", (re.search(r"Definition buffer_caps : list N :=\s*(.*?)\.\n", text, re.S) or [None, ""])[1]))
    n_progs = len(re.findall(r"mkfp ", text))
    chk.cov["buffer_table"] = {"buffers": n_bufs, "function_programs": n_progs}
    gen = chk.cov.get("gen_items", {})
    for k in ("buffer_caps", "buffer_locals", "buffer_progs", "buffer_unmodelled"):
        if not str(gen.get(k, "")).startswith("derived"):
            chk.notes.append("%s: %s" % (k, gen.get(k)))
    if m:
        unm = set(_names_in(m.group(2)))
        chk.cov["buffer_table"]["unmodelled"] = sorted(unm)
        chk.cov["buffer_table"]["unmodelled_reasons"] = m.group(1).strip()[:1500]
        new = unm - KNOWN_UNMODELLED
        if new:
            chk.disagreement("the buffer translator can no longer express %s (%s): the theorem C20_formatting_buffers_safe does not cover "
                             "what these functions do with their character arrays" % (", ".join(sorted(new)), m.group(1).strip()[:400]),
                             {"unmodelled_now": sorted(unm), "known": sorted(KNOWN_UNMODELLED),
                              "how": "python3 tools/srcfacts.py; see buffer_unmodelled in coq/Gen/Facts.v"})
    if any("Properties_C20_buffers.v" in b for b in chk.proof_broken):
        # name the functions whose program the analysis rejects
        d = vlib.private_dir("buf")
        try:
            open(os.path.join(d, "Q.v"), "w").write(
                "From Coq Require Import List NArith Bool.\nFrom CgreenVerif Require Import Buffers.\nFrom CgreenVerif.Gen Require Import Facts.\nImport ListNotations.\nSet Printing Width 100000.\n"
                "Eval vm_compute in map fp_name (filter (fun f => negb (fprog_ok buffer_caps buffer_locals f)) buffer_progs).\n"
                "Eval vm_compute in map (fun f => first_bad buffer_caps buffer_locals 5000 f) (filter (fun f => negb (fprog_ok buffer_caps buffer_locals f)) buffer_progs).\n")
            p = vlib.sh(["coqc", "-Q", vlib.COQ, "CgreenVerif", "Q.v"], cwd=d, timeout=300)
            out = p.stdout.replace("\n", " ")
            first, _, second = out.partition(": list (list N)")
            bad = _names_in(first)
            wit = re.findall(r"(Some \((?:Overflow|UninitRead) [^)]*\)|None)", second)
            chk.cov["buffer_table"]["rejected_functions"] = bad
            where = re.search(r"\(\* buffers: (.*?) \*\)", text, re.S)
            names = dict(x.split(" = ", 1) for x in where.group(1).split("; ")) if where else {}
            for i, fn in enumerate(bad):
                w = wit[i] if i < len(wit) else "None"
                m2 = re.match(r"Some \(Overflow (\d+) (\d+)", w)
                if m2:
                    desc = ("formatting buffer: in the model translated from the current source, %s writes %s byte(s) past the end of %s when every "
                            "caller-supplied string is 5000 characters long and every number as wide as its type allows" % (fn, m2.group(2), names.get(m2.group(1), "buffer " + m2.group(1))))
                    chk.violation("buffer-model:%s" % fn, desc, {"function": fn, "buffer": names.get(m2.group(1)), "bytes_past_end": int(m2.group(2)),
                                  "how": "model-level witness: coq/Gen/Facts.v (buffer_progs) and Buffers.first_bad; the sanitizer runs may or may not reach it (a count of 10 digits, colours on, ...)"})
                else:
                    chk.notes.append("buffer analysis rejects %s; exploring its program with 5000-character strings finds: %s" % (fn, w))
        finally:
            shutil.rmtree(d, ignore_errors=True)


def tool_runs(chk, build):
    """cgreen-runner (sanitizer build) on generated libraries: test and context names of any length in the
    discovered-test list, a library path of any length, a pattern of any length"""
    import check_runner as R
    d = tempfile.mkdtemp(prefix="c20tool")
    jobs = []
    try:
        nlens = [100, 940, 960, 1500] if chk.tier == "quick" else [1, 100, 500, 900, 940, 950, 960, 990, 1000, 1500, 3000]
        for ln in nlens:
            tests = [(None, "t" * ln, True), (None, "other", True), ("Ctx", "x" * ln, True), ("C" * ln, "in_long_context", True)]
            so = R.build_lib(build, d, "n%d" % ln, tests)
            jobs.append(("toolnames len=%d" % ln, [so], 4, None))
            jobs.append(("toolpattern len=%d" % ln, [so, "t" * ln], 1, None))
            jobs.append(("toolpattern-nomatch len=%d" % ln, [so, "q" * ln], 0, "No such test"))
        base = R.build_lib(build, d, "plain", [(None, "one", True), ("Ctx", "two", True)])
        plens = [200, 980, 1000, 1200, 3000] if chk.tier == "quick" else [100, 200, 900, 960, 980, 990, 1000, 1001, 1200, 2000, 3000, 3900]
        for ln in plens:
            sub = os.path.join(d, "p%d" % ln)
            os.makedirs(sub)
            cur = sub
            while len(cur) + 8 < ln:                        # + "/plain.so"
                part = "d" * min(200, ln - len(cur) - 9)
                if not part:
                    break
                cur = os.path.join(cur, part)
            os.makedirs(cur, exist_ok=True)
            so = os.path.join(cur, "plain.so")
            shutil.copy(base, so)
            jobs.append(("toolpath len=%d" % len(so), [so], 2, None))
        with ThreadPoolExecutor(vlib.NPROC) as ex:
            def one(j):
                jd = tempfile.mkdtemp(prefix="j", dir=d)
                return R.run_runner(build, jd, j[1], timeout=120)
            results = list(ex.map(one, jobs))
        for (label, args, expect, refusal), (rc, out, executed) in zip(jobs, results):
            chk.case(("tool", label))
            chk.count("run:" + label.split(" ")[0])
            rp = {"what": label, "args": [a if len(a) < 300 else a[:100] + "...(%d characters)" % len(a) for a in args],
                  "how": "build a library with such names (tools/check_runner.py lib_sources) and run _work/build-asan/tools/cgreen-runner on it with ASAN_OPTIONS=detect_leaks=0",
                  "output": out[-1500:]}
            san = asan_summary(out)
            if san:
                i = max(out.find("ERROR: AddressSanitizer"), out.find("runtime error"), 0)
                rp["output"] = out[max(0, i - 200):i + 1800]
            if san:
                sig = "tool-memory:" + re.sub(r"[^A-Za-z0-9_]+", "-", san)[:80]
                chk.violation(sig, "undefined behaviour inside cgreen-runner (%s): %s" % (label, san), dict(rp, sanitizer=san))
                continue
            if rc is None:
                chk.violation("tool-hang", "cgreen-runner did not terminate (%s)" % label, rp)
                continue
            if refusal is not None:
                if rc == 0 or executed:
                    chk.violation("tool-results", "%s: expected a refusal (%s), got exit %s and %d tests executed" % (label, refusal, rc, len(executed)), rp)
                continue
            if rc != 0 or len(executed) != expect:
                chk.violation("tool-results", "%s: exit %s and %d tests executed; the small case runs %d tests and exits 0" % (label, rc, len(executed), expect), rp)
    finally:
        shutil.rmtree(d, ignore_errors=True)


def _ops_of(il):
    return [(x[0], x[1:]) for x in il[2:].split(";")]


def gen_runs(chk, step):
    """(label, root, reporter, mode, expected passes)"""
    rng = chk.rng
    runs = []
    tid = [0]

    def test(name=None):
        tid[0] += 1
        t = L.Test(tid[0], body=[("c", 1)])
        if name:
            t.name_override = name
        return t
    reps = L.REPORTERS
    # many tests in one suite, around the realloc / growth boundaries, mixed with sub-suites
    for n in ([step - 1, step, step + 1, 2 * step + 1] if chk.tier == "quick" else [1, 2, 63, 64, 65, step - 1, step, step + 1, 2 * step, 2 * step + 1, 5 * step]):
        tid[0] = 0
        root = L.Suite(0, children=[test() for _ in range(n // 2)] + [L.Suite(1, children=[test(), test()])] + [test() for _ in range(n - n // 2)])
        for rep in (reps if chk.tier == "thorough" else [reps[(n + i) % len(reps)] for i in range(2)]):
            runs.append(("count n=%d" % n, root, rep, "forked", n + 2))
    # nesting depth
    for depth in ([1, 2, 50, 99, 100, 101] if chk.tier == "quick" else [1, 2, 3, 50, 98, 99, 100, 101, 120]):
        tid[0] = 0
        inner = L.Suite(depth, children=[test()])
        for d in range(depth - 1, -1, -1):
            inner = L.Suite(d, children=[inner] + ([test()] if d % 25 == 0 else []))
        exp = sum(1 for _ in inner.tests())
        for rep in (reps if chk.tier == "thorough" or depth in (99, 100, 101) else ["text", "xml"]):
            runs.append(("depth d=%d" % depth, inner, rep, "forked", exp))
    # nesting depth again with one-character suite names: the path stays below NAME_MAX, so the xml reporters
    # really nest that deep (one open file / document per level)
    for depth in ([99, 100, 101, 120] if chk.tier == "quick" else [1, 50, 98, 99, 100, 101, 102, 120]):
        tid[0] = 0
        inner = L.Suite(depth, children=[test()])
        inner.name_override = "a"
        for d in range(depth - 1, -1, -1):
            inner = L.Suite(d, children=[inner])
            inner.name_override = "a"
        for rep in ("xml", "libxml", "text"):
            runs.append(("shortdepth d=%d" % depth, inner, rep, "forked", 1))
    # the xml reporters with a printer of the caller's: no per-suite file, so neither NAME_MAX nor PATH_MAX ends
    # the run early - depth around the 1000-byte indentation buffer, names around the PATH_MAX-byte suite path
    for depth in ([998, 999, 1000, 1001] if chk.tier == "quick" else [1, 100, 500, 998, 999, 1000, 1001, 1002, 1500]):
        tid[0] = 0
        inner = L.Suite(depth, children=[test()])
        inner.name_override = "a"
        for d in range(depth - 1, -1, -1):
            inner = L.Suite(d, children=[inner])
            inner.name_override = "a"
        for rep in ("xmlp", "libxmlp"):
            runs.append(("printerdepth d=%d" % depth, inner, rep, "forked", 1))
    for nlev, ln in ([(3, 3000), (2, 4095), (2, 4094), (5, 1023), (4, 1024)] if chk.tier == "quick" else
                     [(3, 3000), (2, 4095), (2, 4094), (2, 4093), (5, 1023), (4, 1024), (4, 1023), (9, 511), (8, 512), (3, 5000), (40, 100), (41, 100), (42, 100)]):
        tid[0] = 0
        inner = L.Suite(nlev, children=[test("t" * ln)])
        inner.name_override = "s" * ln
        for d in range(nlev - 1, -1, -1):
            inner = L.Suite(d, children=[inner])
            inner.name_override = "s" * ln
        for rep in ("xmlp", "libxmlp"):
            runs.append(("printernames levels=%d len=%d" % (nlev + 1, ln), inner, rep, "forked", 1))
    # name lengths: suite, nested suite and test names
    lens = [1, 50, 90, 93, 94, 99, 100, 101, 255, 256, 999, 1000, 1001, 4090, 5000] if chk.tier == "thorough" else [1, 93, 94, 99, 100, 101, 255, 1000, 1001, 5000]
    for ln in lens:
        for which in ("suite", "test", "both"):
            tid[0] = 0
            nm = lambda c: (c * ln)
            t1, t2 = test(nm("t") if which != "suite" else None), test()
            sub = L.Suite(1, children=[t1])
            if which != "test":
                sub.name_override = nm("s")
            root = L.Suite(0, children=[sub, t2])
            if which == "both":
                root.name_override = nm("r")
            for rep in (reps if chk.tier == "thorough" or ln in (100, 1000, 1001, 5000) else [reps[(ln + len(which)) % len(reps)]]):
                runs.append(("names len=%d on=%s" % (ln, which), root, rep, "forked", 2))
    # what the names consist of: bytes above 0x7f (the scenario file is written as UTF-8, so every non-ASCII
    # character becomes two such bytes), DEL, the characters the xml reporters escape - alone, mixed with
    # ordinary characters, and many of them (whatever a reporter reserves per character is multiplied)
    texts = ["\u00e9", "na\u00efve", "\u00ff" * 7, "\x7f", "<&>\"'", "\u00e9" * 200, "a\u00e9" * 60 + "<", "\u20ac" * 40, "&" * 300]
    if chk.tier == "quick":
        texts = [texts[i] for i in (0, 2, 3, 4, 5, 6)]
    for k, txt in enumerate(texts):
        for which in ("suite", "test"):
            tid[0] = 0
            t1, t2 = test(txt if which == "test" else None), test()
            sub = L.Suite(1, children=[t1])
            if which == "suite":
                sub.name_override = txt
            root = L.Suite(0, children=[sub, t2])
            for rep in (["xml", "xmlp", "libxml", "libxmlp", "text", "cute"] if chk.tier == "thorough" or k in (0, 4, 5) else ["xml", "xmlp", "libxmlp"]):
                runs.append(("namebytes #%d on=%s" % (k, which), root, rep, "forked", 2))
    return runs


CHECKS = {"C20": check_C20}
