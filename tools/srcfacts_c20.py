"""Translator items for the container models (C20): guards, index expressions and growth of
CgreenVector (src/vector.c), the TestSuite entry array (src/suite.c) and the breadcrumb trail
(src/breadcrumb.c).  Each function must have exactly the statement skeleton the model mirrors;
anything else is "cannot translate" (pinned fallback, the sanitizer correspondence carries it)."""
from srcfacts import Cannot, walk, body_of, strip, member_path
from srcfacts_more import Body


def stmts(fn):
    return [s for s in body_of(fn).get("inner", []) if s.get("kind") != "DeclStmt"]


def kinds(ss):
    return [s.get("kind") + (":" + s["opcode"] if "opcode" in s else "") for s in ss]


def need(cond, what):
    if not cond:
        raise Cannot(what)


def subscript(e, array):
    """e is <base>->array[idx]; returns idx node"""
    e = strip(e)
    # allow member access on the element: tests[i].type
    while e.get("kind") == "MemberExpr" and strip(e["inner"][0]).get("kind") in ("ArraySubscriptExpr", "MemberExpr") \
            and not _is_base_member(e, array):
        e = strip(e["inner"][0])
    need(e.get("kind") == "ArraySubscriptExpr", "array subscript expected")
    base = strip(e["inner"][0])
    need(base.get("kind") == "MemberExpr" and base.get("name") == array, "subscript of ->" + array)
    return e["inner"][1]


def _is_base_member(e, array):
    return e.get("name") == array


def fun(params, body):
    return "(fun %s => %s)" % (" ".join(params), body)


def vector_src(tu):
    f = tu["funs"]
    calls = {"cgreen_vector_size": lambda b, args: "size"}
    # increase_space
    step = None
    for n in walk(body_of(f["increase_space"])):
        if n.get("kind") == "CompoundAssignOperator" and n.get("opcode") == "+=":
            base, path = member_path(n["inner"][0])
            if base == "vector" and path == ["space"]:
                step = Body({}, {}, {}).int_expr(n["inner"][1])
    need(step is not None, "vector growth step")
    need(kinds(stmts(f["increase_space"])) == ["CompoundAssignOperator:+=", "BinaryOperator:="], "increase_space shape")
    # add
    ss = stmts(f["cgreen_vector_add"])
    need(kinds(ss) == ["IfStmt", "BinaryOperator:=", "UnaryOperator:++"], "cgreen_vector_add shape")
    b = Body({"vector->size": "size", "vector->space": "space"}, {}, calls)
    need(len(ss[0]["inner"]) == 2, "cgreen_vector_add: else branch")
    grow_calls = [strip(c["inner"][0])["referencedDecl"]["name"] for c in walk(ss[0]["inner"][1]) if c.get("kind") == "CallExpr"]
    need(grow_calls == ["increase_space"], "cgreen_vector_add: growth call")
    must_grow = fun(["size", "space"], b.bool_expr(ss[0]["inner"][0]))
    add_index = fun(["size"], b.int_expr(subscript(ss[1]["inner"][0], "items")))
    base, path = member_path(ss[2]["inner"][0])
    need((base, path) == ("vector", ["size"]), "cgreen_vector_add: size++")
    # remove
    ss = stmts(f["cgreen_vector_remove"])
    need(kinds(ss) == ["IfStmt", "BinaryOperator:=", "ForStmt", "BinaryOperator:=", "UnaryOperator:--", "ReturnStmt"],
         "cgreen_vector_remove shape")
    b = Body({"vector->size": "size", "position": "position", "i": "i"}, {}, calls)
    need(any(c.get("kind") == "ReturnStmt" for c in walk(ss[0]["inner"][1])), "remove: guard returns")
    illegal_remove = fun(["position", "size"], b.bool_expr(ss[0]["inner"][0]))
    need(b.int_expr(subscript(ss[1]["inner"][1], "items")) == "position", "remove: item = items[position]")
    init, _, cond, inc, body = ss[2]["inner"]
    need(init.get("kind") == "BinaryOperator" and init.get("opcode") == "=" and
         b.int_expr(init["inner"][0]) == "i" and b.int_expr(init["inner"][1]) == "position", "remove: loop starts at position")
    need(inc.get("kind") == "UnaryOperator" and inc.get("opcode") == "++" and b.int_expr(inc["inner"][0]) == "i", "remove: i++")
    shift_cond = fun(["i", "size"], b.bool_expr(cond))
    bs = [s for s in body.get("inner", [])] if body.get("kind") == "CompoundStmt" else [body]
    need(kinds(bs) == ["BinaryOperator:="], "remove: loop body")
    shift_dst = fun(["i"], b.int_expr(subscript(bs[0]["inner"][0], "items")))
    shift_src = fun(["i"], b.int_expr(subscript(bs[0]["inner"][1], "items")))
    clear_index = fun(["size"], b.int_expr(subscript(ss[3]["inner"][0], "items")))
    need(Body({}, {}, {}).is_null_lit(ss[3]["inner"][1]), "remove: items[..] = NULL")
    base, path = member_path(ss[4]["inner"][0])
    need((base, path) == ("vector", ["size"]), "remove: size--")
    # get
    ss = stmts(f["cgreen_vector_get"])
    need(kinds(ss) == ["IfStmt", "ReturnStmt"], "cgreen_vector_get shape")
    b = Body({"vector->size": "size", "position": "position"}, {}, calls)
    illegal_get = fun(["position", "size"], b.bool_expr(ss[0]["inner"][0]))
    need(b.int_expr(subscript(ss[1]["inner"][0], "items")) == "position", "get: return items[position]")
    # size
    ss = stmts(f["cgreen_vector_size"])
    need(kinds(ss) == ["ReturnStmt"], "cgreen_vector_size shape")
    return "mkvsrc %s\n    %s %s\n    %s\n    %s %s %s %s\n    %s" % (step, must_grow, add_index, illegal_remove, shift_cond,
                                                                     shift_src, shift_dst, clear_index, illegal_get)


def suite_src(tu, fname, owner):
    ss = stmts(tu["funs"][fname])
    need(kinds(ss) == ["UnaryOperator:++", "BinaryOperator:=", "BinaryOperator:=", "BinaryOperator:=", "BinaryOperator:="],
         fname + " shape")
    base, path = member_path(ss[0]["inner"][0])
    need((base, path) == (owner, ["size"]), fname + ": size++")
    b = Body({owner + "->size": "n"}, {}, {})
    # realloc(tests, sizeof(UnitTest) * n)
    call = None
    for n in walk(ss[1]["inner"][1]):
        if n.get("kind") == "CallExpr" and strip(n["inner"][0])["referencedDecl"]["name"] == "realloc":
            call = n
    need(call is not None, fname + ": realloc")
    base, path = member_path(ss[1]["inner"][0])
    need((base, path) == (owner, ["tests"]), fname + ": tests = realloc")
    arg = strip(call["inner"][2])
    need(arg.get("kind") == "BinaryOperator" and arg.get("opcode") == "*", fname + ": realloc size")
    parts = [strip(x) for x in arg["inner"]]
    szof = [p for p in parts if p.get("kind") == "UnaryExprOrTypeTraitExpr"]
    other = [p for p in arg["inner"] if strip(p).get("kind") != "UnaryExprOrTypeTraitExpr"]
    need(len(szof) == 1 and len(other) == 1 and szof[0].get("argType", {}).get("qualType") == "UnitTest", fname + ": sizeof(UnitTest) * count")
    count = b.int_expr(other[0])
    idx = {b.int_expr(subscript(s["inner"][0], "tests")) for s in ss[2:]}
    need(len(idx) == 1, fname + ": the three field writes use one index")
    return "mkssrc (fun size => size + 1) (fun n => %s) (fun n => %s)" % (count, idx.pop())


def crumb_src(tu):
    f = tu["funs"]
    ss = stmts(f["push_breadcrumb"])
    need(kinds(ss) == ["UnaryOperator:++", "IfStmt", "BinaryOperator:="], "push_breadcrumb shape")
    base, path = member_path(ss[0]["inner"][0])
    need((base, path) == ("breadcrumb", ["depth"]), "push: depth++")
    b = Body({"breadcrumb->depth": "depth", "breadcrumb->space": "space"}, {}, {})
    must_grow = fun(["depth", "space"], b.bool_expr(ss[1]["inner"][0]))
    # inside the branch: space++ then realloc(trail, sizeof(const char *) * space)
    inner = [s for s in ss[1]["inner"][1].get("inner", []) if s.get("kind") != "DeclStmt"]
    need(kinds(inner) == ["UnaryOperator:++", "BinaryOperator:=", "IfStmt", "BinaryOperator:="], "push: growth branch shape")
    base, path = member_path(inner[0]["inner"][0])
    need((base, path) == ("breadcrumb", ["space"]), "push: space++")
    call = [n for n in walk(inner[1]) if n.get("kind") == "CallExpr" and strip(n["inner"][0])["referencedDecl"]["name"] == "realloc"]
    need(len(call) == 1, "push: realloc")
    arg = strip(call[0]["inner"][2])
    need(arg.get("kind") == "BinaryOperator" and arg.get("opcode") == "*", "push: realloc size")
    other = [p for p in arg["inner"] if strip(p).get("kind") != "UnaryExprOrTypeTraitExpr"]
    need(len(other) == 1 and b.int_expr(other[0]) == "space", "push: realloc(sizeof * space)")
    push_index = fun(["depth"], b.int_expr(subscript(ss[2]["inner"][0], "trail")))
    pp = stmts(f["pop_breadcrumb"])
    need(kinds(pp) == ["UnaryOperator:--"], "pop_breadcrumb shape")
    cs = stmts(f["get_current_from_breadcrumb"])
    need(kinds(cs) == ["IfStmt", "ReturnStmt"], "get_current_from_breadcrumb shape")
    b2 = Body({"breadcrumb->depth": "depth"}, {}, {"get_breadcrumb_depth": lambda b, args: "depth"})
    need(b2.bool_expr(cs[0]["inner"][0]) == "(depth =? (0))", "get_current: depth == 0 guard")
    cur = fun(["depth"], b2.int_expr(subscript(cs[1]["inner"][0], "trail")))
    return "mkbsrc %s %s %s" % (must_grow, push_index, cur)


def register(add, tu):
    add("vector_src", "vsrc", lambda: vector_src(tu("src/vector.c")), "src/vector.c")
    add("suite_test_src", "ssrc", lambda: suite_src(tu("src/suite.c"), "add_test_", "suite"), "src/suite.c:add_test_")
    add("suite_suite_src", "ssrc", lambda: suite_src(tu("src/suite.c"), "add_suite_", "owner"), "src/suite.c:add_suite_")
    add("crumb_src", "bsrc", lambda: crumb_src(tu("src/breadcrumb.c")), "src/breadcrumb.c")
