"""Model side of C11: the document the Coq model (Xml.v) renders for a scenario is compared
byte for byte with the file the real xml reporter wrote (the time values are taken from the
file)."""
import re
import vlib

SIGNAMES = {11: "Segmentation fault", 9: "Killed", 15: "Terminated", 6: None, 13: "Broken pipe"}
DEFAULT_ERR = b"Test terminated unexpectedly, likely from a non-standard exception or Posix signal"


def sx(b):
    return "(" + " ".join(str(x) for x in b) + ")" if b else "e"


def scenario_lines(case):
    """line number (1-based) of every action line, as scn() lays the scenario out"""
    n = 3
    n += len(case["suites"])
    lines = {}
    for tid, name, sid, xensure, items in case["tests"]:
        n += 1
        for k, it in enumerate(items):
            n += 1
            lines[(tid, k)] = n
    return lines


def compare(chk, case, files, rp):
    if any(it[0] == "streq" for t in case["tests"] for it in t[4]):
        return                      # texts produced by message_formatting.c are not reconstructed here
    lines = scenario_lines(case)
    parent = {sid: par for sid, name, par in case["suites"]}
    names = {sid: name for sid, name, par in case["suites"]}

    def path(sid):
        out = []
        while sid is not None:
            out.insert(0, names[sid]); sid = parent[sid]
        return out
    stop = False
    for sid, sname, par in case["suites"]:
        p = path(sid)
        fn = "out-" + "-".join(p) + ".xml"
        data = files.get(fn)
        if data is None:
            # names that cannot be file names, or the run ended before this suite
            continue
        times = re.findall(rb' time="([0-9.]*)">', data)
        cases, ti = [], 0
        complete = True
        for tid, tname, tsid, xensure, items in case["tests"]:
            if tsid != sid:
                continue
            its = []
            died = False
            if xensure:
                its.append("S")
            else:
                skipped = False
                for k, it in enumerate(items):
                    if it[0] == "fail":
                        its.append("(F %s %s %s)" % (sx(it[1]), sx(b"scn.c"), sx(str(lines[(tid, k)]).encode())))
                    elif it[0] == "skip":
                        skipped = True
                    elif it[0] == "die":
                        died = it[1]
                        break
                if skipped and not died:
                    its.append("S")
                if died:
                    nm = SIGNAMES.get(died)
                    text = (b"Test terminated with signal: " + nm.encode()) if nm else DEFAULT_ERR
                    its.append("(E %s %s %s)" % (sx(text), sx(b"scn.c"), sx(str(2000 + tid).encode())))
                if skipped and died:
                    complete = False          # known corner (skip then die): not reconstructed
            if ti >= len(times):
                complete = False
                break
            cases.append("((%s) %s %s (%s))" % (" ".join(sx(x.encode("latin-1")) for x in p), sx(tname.encode("latin-1")), sx(times[ti]), " ".join(its)))
            ti += 1
            if died and case["mode"] == "inproc":
                complete = False
        if not complete:
            continue
        depth = len(p) - 1
        m = vlib.run_model("xml", ["(D %d (%s) (%s))" % (depth, " ".join(sx(x.encode("latin-1")) for x in p), " ".join(cases))])[0]
        chk.cov["disagreements_checked"] += 1
        chk.count("document-compared")
        if m.startswith("ERROR") or bytes.fromhex(m) != data:
            md = bytes.fromhex(m) if not m.startswith("ERROR") else m.encode()
            i = next((k for k in range(min(len(md), len(data))) if md[k] != data[k]), min(len(md), len(data)))
            chk.disagreement("%s: %s differs from the model's rendering at byte %d: file ...%r, model ...%r" % (
                case["label"], fn, i, data[max(0, i - 30):i + 40], md[max(0, i - 30):i + 40]), dict(rp, file=fn))
