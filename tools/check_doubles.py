"""C15: double comparison obeys equality laws and the documented tolerance."""
import math, struct, subprocess
from fractions import Fraction
import vlib

TRUSTED = [
    "Coq 8.16.1 kernel (full .vo build; vm_compute only in examples; no native_compute)",
    "Flocq (IEEE754/BinarySingleNaN, Core): binary64 arithmetic with round-to-nearest-even; through it the standard library's real-number axioms: ClassicalDedekindReals.sig_not_dec, ClassicalDedekindReals.sig_forall_dec, FunctionalExtensionality.functional_extensionality_dep, Classical_Prop.classic (Print Assumptions lists exactly these under every C15 theorem)",
    "tools/srcfacts_c15.py (clang JSON AST): the bodies of doubles_are_equal, double_is_lesser, double_is_greater, accuracy, the argument order of compare_want_*_double, the negation in compare_do_not_want_double, absolute_tolerance (folded with IEEE double division) and the default / per-test figures are re-derived from source on every run",
    "extraction: ExtrOcamlBasic only (Flocq's operations extracted as they are); ocaml/h_doubles.ml glue",
    "correspondence: harness/probe_doubles.c (every public route: doubles_are_equal, assert_that_double, legacy assert_double_* and *_with_message, mock expectations), tools/check_doubles.py; the exact-rational oracle (python Fraction) evaluates the property's bounds on the implementation's answers: testing, not proof",
    "modelled, not verified: libm's log10, floor and pow appear in the theorems only through named hypotheses (pow_monotone, tol_nonneg) and in the correspondence run through the values the installed libm returns; that the C compiler implements double - + < fabs as IEEE-754 binary64 round-to-nearest (x86-64 SSE2, no -ffast-math)",
]


def bits(x):
    return struct.unpack("<Q", struct.pack("<d", x))[0]


def dbl(b):
    return struct.unpack("<d", struct.pack("<Q", b))[0]


def nxt(x, k=1):
    for _ in range(abs(k)):
        x = math.nextafter(x, math.inf if k > 0 else -math.inf)
    return x


def gen_pairs(chk):
    rng = chk.rng
    big = chk.tier == "thorough"
    pairs = []
    ks = list(range(-320, 309, 3 if big else 23)) + [-308, -307, -300, -299, -16, -15, -8, -1, 0, 1, 2, 3, 8, 15, 16, 22, 23, 100, 300, 307, 308]
    for k in sorted(set(ks)):
        try:
            p = float("1e%d" % k)
        except OverflowError:
            continue
        if p == 0.0 or math.isinf(p):
            continue
        for base in (p, nxt(p, -1), nxt(p, 1), nxt(p, -2), 9.999999 * p / 10 if k > -300 else p):
            if base == 0 or math.isinf(base):
                continue
            pairs.append((base, base))
            pairs.append((base, nxt(base)))
            for n in ((1, 2, 8, 15) if not big else range(1, 16)):
                for c in (0.09, 0.11, 0.9, 1.1, 9.0, 11.0):
                    other = base * (1 + c * 10.0 ** (-n))
                    if math.isfinite(other):
                        pairs.append((base, other))
                        pairs.append((-base, -other))
            pairs.append((base, -1e-14 * base if abs(base) < 1e300 else -base))
            pairs.append((base, -base))
    specials = [0.0, -0.0, 5e-324, -5e-324, 2.2250738585072014e-308, nxt(2.2250738585072014e-308, -1), 1.7976931348623157e308,
                -1.7976931348623157e308, 1e-300, 2.2e-300, 2.3e-300, 1e-292, 1.0, -1.0, 0.1, 0.3, 1.0 / 3.0, 123456.789, 4.23, 1e15, 1e16]
    for a in specials:
        for b in specials:
            pairs.append((a, b))
    for _ in range(3000 if big else 150):
        e = rng.randrange(1, 2046)
        x = dbl((rng.getrandbits(1) << 63) | (e << 52) | rng.getrandbits(52))
        w = rng.random()
        if w < 0.4:
            y = nxt(x, rng.choice([1, -1, 2, 5, 100]))
        elif w < 0.8:
            y = x * (1 + rng.choice([1, -1]) * rng.random() * 10.0 ** (-rng.randrange(1, 17)))
        else:
            y = dbl((rng.getrandbits(1) << 63) | (rng.randrange(1, 2046) << 52) | rng.getrandbits(52))
        if math.isfinite(y):
            pairs.append((x, y))
    return pairs


def run_probe(drv, lines):
    p = subprocess.run([drv], input="\n".join(lines) + "\n", stdout=subprocess.PIPE, stderr=subprocess.DEVNULL, text=True, timeout=900)
    out = p.stdout.split("\n")
    if out and out[-1] == "":
        out.pop()
    if p.returncode != 0 or len(out) != len(lines):
        raise vlib.Infra("probe_doubles ended early (exit %s, %d of %d lines)" % (p.returncode, len(out), len(lines)))
    return out


def check_C15(chk):
    build = vlib.build_repo("hooks")
    drv = vlib.build_driver("probe_doubles", build, libs=("-lcgreen", "-lm"))
    chk.prove(["Properties_C15.v"])
    chk.cov["trusted_base"] = TRUSTED + ["axioms: see coverage.print_assumptions"]
    for k in ("accuracy_src", "doubles_are_equal_src", "double_is_lesser_src", "double_is_greater_src", "abs_tol_bits", "figures_default"):
        st = str(chk.cov.get("gen_items", {}).get(k, ""))
        if not st.startswith("derived"):
            chk.notes.append("%s: %s" % (k, st))
    abs_tol = Fraction(2.2250738585072014e-308 / 1.0e-8)
    figs_all = list(range(1, 16))
    pairs = gen_pairs(chk)
    if chk.tier == "quick" and len(pairs) > 2600:
        stride = len(pairs) // 2600 + 1
        off = chk.seed % stride
        pairs = pairs[off::stride] + [(nxt(1e3, -1), -1e-14), (nxt(1e3, -1), nxt(1e3, -1) * -1e-14), (1.0, 1.0), (0.0, -0.0)]
    # symmetric partner of every pair
    pairs = [p for xy in pairs for p in (xy, (xy[1], xy[0]))]
    cases = []
    for x, y in pairs:
        for n in (figs_all if chk.tier == "thorough" else (1, 2, 3, 7, 8, 9, 14, 15)):
            cases.append(("E", n, bits(x), bits(y)))
    half = len(cases)
    for x, y in pairs[:: 3]:
        for n in (1, 8, 15):
            cases.append(("L", n, bits(x), bits(y)))
            cases.append(("G", n, bits(x), bits(y)))
    # 1 the argument of accuracy() in each comparison (model), 2 floor(log10 |.|) (libm), 3 the exponent (model, translated), 4 pow (libm)
    m1 = vlib.run_model("doubles", ["(%s %d %d)" % ("LE" if c[0] == "E" else "LO", c[2], c[3]) for c in cases])
    largest = sorted(set(m1))
    kk = dict(zip(largest, run_probe(drv, ["K %016x" % int(l) for l in largest])))
    kext = [kk[l].replace("F ", "") for l in m1]
    exps = vlib.run_model("doubles", ["(X %s %d)" % (k, c[1]) for k, c in zip(kext, cases)])
    uexp = sorted(set(exps))
    pw = dict(zip(uexp, run_probe(drv, ["P " + (e if e in ("NINF", "PINF", "NAN") else "F " + e) for e in uexp])))
    accb = [int(pw[e], 16) for e in exps]
    model = vlib.run_model("doubles", ["(%s %d %d %d %d)" % (c[0], a, c[1], c[2], c[3]) for c, a in zip(cases, accb)])
    impl = run_probe(drv, ["%s %d %016x %016x" % c for c in cases])
    # libm hypotheses of the theorems, validated on the installed libm: pow(10, k) monotone and non-negative for every reachable k
    pk = run_probe(drv, ["P F %d" % k for k in range(-360, 330)])
    pvals = [dbl(int(b, 16)) for b in pk]
    chk.cov["libm_pow_exponents_checked"] = len(pvals)
    for i in range(1, len(pvals)):
        if not (pvals[i - 1] <= pvals[i]) or pvals[i] < 0 or math.isnan(pvals[i]) or (pvals[i] == 0 and math.copysign(1, pvals[i]) < 0):
            chk.disagreement("libm hypothesis pow_monotone/tol_nonneg fails at pow(10, %d) = %r (previous %r)" % (i - 360, pvals[i], pvals[i - 1]), {"k": i - 360})
    d = run_probe(drv, ["D"])[0]
    dm = vlib.run_model("doubles", ["(F)"])[0]
    chk.case(("D",))
    if d != dm:
        chk.disagreement("a test starts with %s significant figures, the translated default is %s" % (d, dm), {"case": "D"})
    if d != "8":
        chk.violation("figures-reset", "a test that runs after the setting was changed starts with %s significant figures, not 8" % d, {"case": "D"})

    res = {}
    for c, o, m, ab in zip(cases, impl, model, accb):
        chk.case(c)
        tval = dbl(ab)                       # the tolerance value this comparison is handed (what accuracy() returns)
        T = Fraction(tval) if math.isfinite(tval) else None
        chk.count("kind:%s:figs%d" % (c[0], c[1]))
        chk.cov["disagreements_checked"] += 1
        x, y = dbl(c[2]), dbl(c[3])
        rp = {"case": "%s %d %016x %016x" % c, "values": [repr(x), repr(y)], "figures": c[1],
              "how": "echo '<case>' | _work/bin-hooks/probe_doubles   (operands are IEEE-754 bit patterns)"}
        if c[0] == "E":
            r = o[0]
            want_routes = r + r + ("0" if r == "1" else "1") + r + ("0" if r == "1" else "1") + r + ("0" if r == "1" else "1") + r
            if o != want_routes:
                chk.violation("routes-disagree", "equal/not-equal through the public routes are not consistent complements for %r vs %r at %d figures: %s (doubles_are_equal, assert_that_double eq, ne, assert_double_equal, _not_equal, eq_with_message, ne_with_message, mock)" % (x, y, c[1], o), rp)
            if o[0] + o[2] != m:
                chk.disagreement("%r vs %r at %d figures: implementation %s, model (Flocq + libm values) %s" % (x, y, c[1], o[0] + o[2], m), rp)
            res[(c[1], c[2], c[3])] = r == "1"
            X, Y = Fraction(x), Fraction(y)
            D, M = abs(X - Y), max(abs(X), abs(Y))
            bound = M * Fraction(10) ** (1 - c[1])
            if x == y and r != "1":
                chk.violation("reflexive", "%r is not equal to itself at %d figures" % (x, c[1]), rp)
            if r == "1" and D > bound and D >= abs_tol:
                excess = float(D / bound - 1) if bound else float("inf")
                sig = "upper-bound-ulp-excess" if excess < 2.0 ** -44 else "upper-bound"
                chk.violation(sig, "%r and %r are accepted as equal at %d figures although they differ by more than max*10^(1-n) (relative excess %.3g)" % (x, y, c[1], excess), dict(rp, excess=excess))
            # against the tolerance value itself (theorems C15_accepted_within_tolerance / C15_within_tolerance_accepted): exact
            if T is not None and T >= 0:
                if r == "1" and not (D < max(abs_tol, T)):
                    chk.violation("accepted-beyond-tolerance-value", "%r and %r are accepted as equal at %d figures although |x-y| is not below the tolerance value %r the comparison was handed (nor below the absolute tolerance)" % (x, y, c[1], tval), dict(rp, tolerance_value=repr(tval)))
                below = Fraction(nxt(tval, -1)) if tval > 0 else None
                if r == "0" and below is not None and D <= below:
                    chk.violation("within-tolerance-value-rejected", "%r and %r are not accepted as equal at %d figures although |x-y| is at most the double just below the tolerance value %r" % (x, y, c[1], tval), dict(rp, tolerance_value=repr(tval)))
            if r == "0" and D < bound / 10:
                chk.violation("lower-bound", "%r and %r differ by less than max*10^(-n) at n=%d figures but are not accepted as equal" % (x, y, c[1]), rp)
        else:
            if o != m + m:
                chk.disagreement("%s %r (expected) vs %r (actual) at %d figures: implementation %s, model %s" % (c[0], x, y, c[1], o, m), rp)
            if o[0] != o[1]:
                chk.violation("routes-disagree-order", "assert_that_double and the mock expectation disagree: %s" % o, rp)
            E, A = Fraction(x), Fraction(y)
            M = max(abs(E), abs(A))
            tol = M * Fraction(10) ** (1 - c[1])
            strictly = (A < E) if c[0] == "L" else (A > E)
            out_by = (A - E) if c[0] == "L" else (E - A)
            if strictly and o[0] != "1":
                chk.violation("order-strict", "actual %r is strictly %s expected %r but is_%s_than_double fails at %d figures" % (y, "below" if c[0] == "L" else "above", x, "less" if c[0] == "L" else "greater", c[1]), rp)
            if T is not None and T >= 0 and o[0] == "1" and not (out_by < T):
                chk.violation("order-beyond-tolerance-value", "actual %r is accepted as %s than %r at %d figures although it is out of order by the tolerance value %r or more" % (
                    y, "less" if c[0] == "L" else "greater", x, c[1], tval), dict(rp, tolerance_value=repr(tval)))
            if o[0] == "1" and out_by > tol:
                excess = float(out_by / tol - 1) if tol else float("inf")
                chk.violation("order-tolerance-ulp-excess" if excess < 2.0 ** -44 else "order-tolerance", "actual %r is accepted as %s than %r at %d figures although it is out of order by more than the tolerance (relative excess %.3g)" % (
                    y, "less" if c[0] == "L" else "greater", x, c[1], excess), dict(rp, excess=excess))
    # symmetry and monotonicity over the collected answers
    for (n, bx, by), r in res.items():
        r2 = res.get((n, by, bx))
        if r2 is not None and r2 != r and bx < by:
            chk.violation("symmetric", "%r vs %r at %d figures: %s one way, %s the other" % (dbl(bx), dbl(by), n, r, r2),
                          {"case": "E %d %016x %016x  and  E %d %016x %016x" % (n, bx, by, n, by, bx)})
        if r:
            for n2 in range(1, n):
                r3 = res.get((n2, bx, by))
                if r3 is False:
                    chk.violation("fewer-figures", "%r vs %r accepted at %d figures but not at %d" % (dbl(bx), dbl(by), n, n2),
                                  {"case": "E %d %016x %016x  and  E %d %016x %016x" % (n, bx, by, n2, bx, by)})
    for c, o in list(zip(cases, impl))[:3] + list(zip(cases, impl))[half:half + 3]:
        chk.sample({"case": "%s %d %016x %016x" % c, "values": [repr(dbl(c[2])), repr(dbl(c[3]))], "result": o})
    return chk.finish()


CHECKS = {"C15": check_C15}
