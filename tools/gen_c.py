"""Seeded generators of layer-C scenarios (suite trees with scripted tests)."""
from layerc import Test, Suite

SIGNALS = [11, 9, 6, 15, 13]          # SIGSEGV SIGKILL SIGABRT SIGTERM SIGPIPE
FRAMEWORK_POINTS = ["before_setup", "after_setup", "after_body", "after_teardown", "after_tally",
                    "after_completion", "at_stop"]


def gen_checks(rng, n, p_fail=0.3):
    return [("c", 0 if rng.random() < p_fail else 1) for _ in range(n)]


def gen_body(rng, kind, fw_acts=False, poke=False):
    """kind: pass | fail | empty | skiptest | signal | exit | mixed"""
    n = rng.choice([1, 1, 2, 3, 5])
    if kind == "empty":
        body = []
    elif kind == "pass":
        body = [("c", 1)] * n
    elif kind == "fail":
        body = [("c", 1)] * n
        body[rng.randrange(n)] = ("c", 0)
        if rng.random() < 0.3:
            body.append(("c", 0))
    elif kind == "skiptest":
        body = gen_checks(rng, n, 0.2)
        body.insert(rng.randrange(len(body) + 1), ("skip",))
    elif kind == "signal":
        body = gen_checks(rng, n, 0.2)
        body.insert(rng.randrange(len(body) + 1), ("die", "sig", rng.choice(SIGNALS)))
    elif kind == "exit":
        body = gen_checks(rng, n, 0.2)
        body.insert(rng.randrange(len(body) + 1),
                    ("die", rng.choice(["exit", "_exit"]), rng.choice([0, 0, 3])))
    else:
        body = gen_checks(rng, n)
    if fw_acts:
        extra = []
        for _ in range(rng.choice([1, 1, 2, 3])):
            r = rng.random()
            if r < 0.2:
                extra.append(("figs", rng.choice([2, 3, 5, 8, 10])))
            elif r < 0.45:
                extra.append(("figscheck", rng.choice([2, 4, 6, 7, 8, 9])))
            elif r < 0.6:
                extra.append(("mode", rng.choice(["loose", "learning", "strict"])))
            elif r < 0.75:
                extra.append(("expect",))
            elif r < 0.82:
                extra.append(("call",))
            elif r < 0.87:
                extra.append(("setparam",))
            elif r < 0.93:
                extra.append(("badparam",))
            elif poke:
                extra.append(rng.choice([("poke", rng.choice([1, 2, 7])), ("peek", rng.choice([0, 0, 1, 7]))]))
        for a in extra:
            body.insert(rng.randrange(len(body) + 1), a)
    return body


KINDS_DEFAULT = [("pass", 5), ("fail", 2), ("empty", 1), ("xensure", 1), ("skiptest", 1),
                 ("signal", 1), ("exit", 1), ("mixed", 2)]


def pick(rng, weighted):
    tot = sum(w for _, w in weighted)
    r = rng.random() * tot
    for k, w in weighted:
        r -= w
        if r <= 0:
            return k
    return weighted[-1][0]


def gen_test(rng, tid, kinds=KINDS_DEFAULT, fixtures=True, fw_acts=False, poke=False):
    kind = pick(rng, kinds)
    t = Test(tid)
    if kind == "xensure":
        t.skip = True
        t.body = gen_checks(rng, 2)
    else:
        t.body = gen_body(rng, kind, fw_acts, poke)
    if fixtures:
        t.ctx_setup = rng.random() < 0.4
        t.ctx_teardown = rng.random() < 0.4
        if rng.random() < 0.3:
            t.setup = gen_checks(rng, 1, 0.2)
        if rng.random() < 0.3:
            t.teardown = gen_checks(rng, 1, 0.2)
        if fw_acts and rng.random() < 0.2:
            t.teardown.append(("expect",))
    return t


def gen_tree(rng, max_depth=3, max_tests=10, kinds=KINDS_DEFAULT, fixtures=True, fw_acts=False,
             poke=False, suite_fixtures=True, all_good=False):
    """Random tree: depth 0..max_depth, empty suites included, suites and tests interleaved."""
    counter = {"t": 0, "s": 0}
    if all_good:
        kinds = [("pass", 5), ("empty", 1), ("xensure", 1)]

    def mk_suite(depth):
        s = Suite(counter["s"])
        counter["s"] += 1
        if suite_fixtures and rng.random() < 0.25:
            s.has_setup = True
        if suite_fixtures and rng.random() < 0.25:
            s.has_teardown = True
        n_children = rng.choice([0, 1, 2, 2, 3, 4]) if depth > 0 else rng.choice([1, 2, 3, 4, 5])
        for _ in range(n_children):
            if counter["t"] >= max_tests and counter["s"] >= 12:
                break
            if depth < max_depth and counter["s"] < 12 and rng.random() < 0.35:
                s.children.append(mk_suite(depth + 1))
            elif counter["t"] < max_tests:
                s.children.append(gen_test(rng, counter["t"], kinds, fixtures, fw_acts, poke))
                counter["t"] += 1
        return s
    root = mk_suite(0)
    if all_good:
        for s, t in root.tests():
            t.setup = [a for a in t.setup if a != ("c", 0)]
            t.teardown = [a for a in t.teardown if a != ("c", 0)]
    return root


def plant_one_bad(rng, root):
    """all-good tree with exactly one bad test in a late / deep position"""
    ts = list(root.tests())
    if not ts:
        return None
    s, t = ts[-1] if rng.random() < 0.5 else rng.choice(ts)
    t.skip = False
    kind = rng.choice(["fail", "signal", "exit3", "skipfail", "skipexpect", "badparam"])
    if kind == "badparam":         # a mocked call violating its when() clause: one failing check
        t.body = [("c", 1), ("badparam",)]
    elif kind == "fail":
        t.body = [("c", 1), ("c", 0)]
    elif kind == "skipfail":       # skip_test() does not leave the test: a later check still counts
        t.body = [("c", 1), ("skip",), ("c", 0)]
    elif kind == "skipexpect":     # ... and so does an expectation nobody met
        t.body = [("skip",), ("expect",)]
    elif kind == "signal":
        t.body = [("c", 1), ("die", "sig", rng.choice(SIGNALS))]
    else:
        t.body = [("die", "exit", 3)]
    return t
