"""Layer C harness: scenarios (suite trees with scripted tests), the real runner through
harness/scn_driver.c, the extracted Runner model, output parsers for every built-in reporter,
and the comparisons the C01-C04, C08, C13, C14, C17, C18 checks are made of."""
import sys as _sys; _sys.setrecursionlimit(20000)
import os, re, shutil, subprocess, xml.etree.ElementTree as ET
import vlib

REPORTERS = ["text", "quiet", "cute", "xml", "libxml", "cdash"]


# ------------------------------------------------------------------------------------------
# scenarios
# ------------------------------------------------------------------------------------------
class Test:
    def __init__(self, tid, skip=False, ctx_setup=False, ctx_teardown=False, setup=(), body=(),
                 teardown=(), kill=None):
        self.tid, self.skip = tid, skip
        self.ctx_setup, self.ctx_teardown = ctx_setup, ctx_teardown
        self.setup, self.body, self.teardown = list(setup), list(body), list(teardown)
        self.kill = kill            # None | (point, nth, how) with how = ('sig', n) | ('exit', n) | ('_exit', n)

    name_override = None
    name = property(lambda s: s.name_override or "t%d" % s.tid)


class Suite:
    def __init__(self, sid, has_setup=False, has_teardown=False, children=None):
        self.sid, self.has_setup, self.has_teardown = sid, has_setup, has_teardown
        self.children = children if children is not None else []

    name_override = None
    name = property(lambda s: s.name_override or "s%d" % s.sid)

    def tests(self):
        for c in self.children:
            if isinstance(c, Test):
                yield self, c
            else:
                yield from c.tests()

    def suites(self):
        yield self
        for c in self.children:
            if isinstance(c, Suite):
                yield from c.suites()


def applicable(s, t):
    return (s.has_setup or t.ctx_setup), (s.has_teardown or t.ctx_teardown)


def setup_steps_len(s, t):
    a, _ = applicable(s, t)
    return (1 + len(t.setup)) if a else 0


def teardown_steps_len(s, t):
    _, b = applicable(s, t)
    return (1 + len(t.teardown)) if b else 0


def kill_index(s, t):
    """index into the model's full_steps at which the process dies"""
    point, nth, how = t.kill
    su, bo, te = setup_steps_len(s, t), 1 + len(t.body), teardown_steps_len(s, t)
    base = {"before_setup": 1, "after_setup": 1 + su, "after_body": 1 + su + bo,
            "after_teardown": 1 + su + bo + te, "after_tally": 2 + su + bo + te,
            "after_completion": 3 + su + bo + te, "at_stop": 3 + su + bo + te}
    if point in base:
        return base[point]
    # write points: only generated for tests whose records all come from plain checks in the body
    if point == "before_write":
        return 1 + su + 1 + nth if nth < len(t.body) else 2 + su + bo + te
    if point == "after_write":
        return 1 + su + 1 + nth + 1 if nth < len(t.body) else 3 + su + bo + te
    raise ValueError(point)


def act_sexp(a):
    k = a[0]
    if k == "raw":
        return ""
    if k == "setparam":
        return "(c 1)"
    if k == "badparam":
        return "(c 0)"
    if k in ("twoa", "twob"):
        return "(c 1)"
    if k == "c":
        return "(c %d)" % a[1]
    if k in ("skip", "expect", "call"):
        return k
    if k == "calle":
        return "call"                  # an unexpected call - of the function other tests declared expectations for
    if k == "die":
        return "(die %s %d)" % ("sig" if a[1] == "sig" else "exit", a[2])
    if k in ("figs", "figscheck", "poke", "peek"):
        return "(%s %d)" % (k, a[1])
    if k == "mode":
        return "(mode %s)" % a[1]
    raise ValueError(a)


def node_sexp(n, owner=None):
    if isinstance(n, Test):
        a_s, a_t = applicable(owner, n)
        kill = "-"
        if getattr(n, "model_kill", None):
            kill = "(%d %s %d)" % n.model_kill        # model only: e.g. the alarm handler's exit while the script sleeps
        elif n.kill:
            how = n.kill[2]
            kill = "(%d %s %d)" % (kill_index(owner, n), "sig" if how[0] == "sig" else "exit", how[1])
        return "(T %d %d %d %d (%s) (%s) (%s) %s)" % (
            n.tid, n.skip, n.ctx_setup, n.ctx_teardown,
            " ".join(map(act_sexp, n.setup if a_s else [])), " ".join(map(act_sexp, n.body)),
            " ".join(map(act_sexp, n.teardown if a_t else [])), kill)
    return "(S %d %d %d (%s))" % (n.sid, n.has_setup, n.has_teardown,
                                   " ".join(node_sexp(c, n) for c in n.children))


def model_case(root, reporter, mode, cap=4096):
    m = mode if mode in ("forked", "inproc") else "(single %d)" % mode[1]
    return "(%s %s %d %s)" % (reporter, m, cap, node_sexp(root))


def act_scn(a):
    k = a[0]
    if k == "c":
        return "pass" if a[1] else "fail"
    if k == "skip":
        return "skip"
    if k == "die":
        return "%s %d" % ({"sig": "sig", "exit": "exit", "_exit": "_exit"}[a[1]], a[2])
    if k == "figs":
        return "sigfigs %d" % a[1]
    if k == "figscheck":
        # 1.0 vs 1+3e-k: equal exactly when the figures setting is <= k
        return "dbl 1.0 %s" % repr(1.0 + 3.0 * 10.0 ** (-a[1]))
    if k == "mode":
        return "mode " + a[1]
    if k == "expect":
        return "expect mocked_e"
    if k == "call":
        return "call mocked_c"
    if k == "calle":
        return "call mocked_e"
    if k in ("poke", "peek"):
        return "%s %d" % (k, a[1])
    if k == "raw":
        return a[1]
    if k == "setparam":
        return "setparam"
    if k == "badparam":
        return "badparam"
    if k in ("twoa", "twob"):
        return k
    raise ValueError(a)


def child_exit_variant(root, reporter, mode):
    """half of the scenarios with forked tests end their test processes with _exit() (chosen by the scenario's
    own content, so that a replay reproduces it)"""
    if mode == "inproc":
        return False
    n = sum(1 + len(t.body) for _, t in root.tests())
    return (n + len(reporter)) % 2 == 0


def scn_text(root, reporter, mode, log):
    out = ["reporter " + reporter, "log " + log]
    if mode == "twice":
        out.append("run twice")
    elif mode == "inproc-forked":
        out.append("run inproc-forked")
    elif mode not in ("forked", "inproc"):
        out.append("run single t%d" % mode[1])
    else:
        out.append("run suite")
    if child_exit_variant(root, reporter, mode):
        # the documented switch between exit() and _exit() at the end of a test process; no property depends on it
        out.append("env CGREEN_CHILD_EXIT_WITH__EXIT 1")
    else:
        out.append("# test processes end with exit()")      # keeps the line numbers the same in every mode

    scripted = set()

    def emit(n, parent):
        if isinstance(n, Suite):
            out.append("S %d %s %s %d %d" % (n.sid, n.name, "-" if parent is None else parent.sid,
                                              n.has_setup, n.has_teardown))
            for c in n.children:
                emit(c, n)
        else:
            out.append("T %d %s %d %d %d %d" % (n.tid, n.name, parent.sid, n.skip, n.ctx_setup, n.ctx_teardown))
            if n.tid in scripted:
                return          # the same test registered in another suite: its script is already there
            scripted.add(n.tid)
            for ph, acts in (("s", n.setup), ("b", n.body), ("t", n.teardown)):
                for a in acts:
                    out.append("a %d %s %s" % (n.tid, ph, act_scn(a)))
            if n.kill:
                point, nth, how = n.kill
                out.append("kill %s %s %d %s%d" % (n.name, point, nth, how[0], how[1]))
    emit(root, None)
    return "\n".join(out) + "\n"


# ------------------------------------------------------------------------------------------
# running the implementation
# ------------------------------------------------------------------------------------------
class Run:
    pass


def run_impl(driver, root, reporter, mode, timeout=60, env_extra=None, scn_extra=""):
    d = vlib.private_dir("scn")
    try:
        log = os.path.join(d, "events.log")
        open(os.path.join(d, "case.scn"), "w").write(scn_text(root, reporter, mode, log) + scn_extra)
        env = dict(os.environ)
        env.pop("CGREEN_NO_FORK", None)
        env.pop("CGREEN_PER_TEST_TIMEOUT", None)
        if mode == "inproc":
            env["CGREEN_NO_FORK"] = "1"
        env["ASAN_OPTIONS"] = "detect_leaks=0"
        if env_extra:
            env.update(env_extra)
        r = Run()
        try:
            p = vlib.run_group([driver, "case.scn"], cwd=d, env=env, stdout=subprocess.PIPE,
                               stderr=subprocess.PIPE, timeout=timeout)
            r.exit, r.timeout = p.returncode, False
            r.stdout = p.stdout.decode("latin-1")
            r.stderr = p.stderr.decode("latin-1")
        except subprocess.TimeoutExpired as ex:
            r.exit, r.timeout = None, True
            r.stdout = (ex.stdout or b"").decode("latin-1")
            r.stderr = (ex.stderr or b"").decode("latin-1")
        r.log = []
        if os.path.exists(log):
            for l in open(log, errors="replace"):
                parts = l.rstrip("\n").split(" ")
                if len(parts) >= 3:
                    r.log.append((int(parts[0]), parts[1], parts[2:]))
        r.files = {}
        for f in sorted(os.listdir(d)):
            if f.endswith(".xml"):
                r.files[f] = open(os.path.join(d, f), "rb").read()
        tdir = os.path.join(d, "Testing")
        if os.path.isdir(tdir):
            for dd, _, fs in os.walk(tdir):
                for f in fs:
                    if f == "Test.xml":
                        r.files["Test.xml"] = open(os.path.join(dd, f), "rb").read()
        return r
    finally:
        shutil.rmtree(d, ignore_errors=True)


# ------------------------------------------------------------------------------------------
# model results
# ------------------------------------------------------------------------------------------
class ModelResult:
    def __init__(self, line):
        head, evs, owns, traces, inprem = line.split("|")
        self.in_premises = inprem == "1"
        self.traces = {}
        for tr in traces.split(";"):
            if tr:
                k, v = tr.split(":")
                self.traces["t" + k] = [x for x in v.split(",") if x]
        h = head.split()
        if h[0] == "fin":
            self.kind, self.status = "fin", int(h[1])
        else:
            self.kind, self.how, self.code = "crash", h[1], int(h[2])
        self.events = [e.split(" ") for e in evs.split(";") if e]
        self.own = {}
        for o in owns.split(";"):
            if o:
                f = o.split()
                self.own["t" + f[0]] = tuple(map(int, f[1:5]))

    def expected_exit(self):
        """what subprocess.returncode must be"""
        if self.kind == "fin":
            return self.status
        return -self.code if self.how == "sig" else (self.code & 0xff)

    def tdone(self):
        return [("t" + e[1], tuple(map(int, e[2:6])), e[6] == "1") for e in self.events if e[0] == "tdone"]

    def sdone(self):
        return [("s" + e[1], tuple(map(int, e[2:6])), int(e[6])) for e in self.events if e[0] == "sdone"]

    def totals(self):
        for e in self.events:
            if e[0] == "tot":
                return tuple(map(int, e[1:5]))
        return None

    def incompletes(self):
        res = []
        for e in self.events:
            if e[0] == "inc":
                res.append(([_nm(x) for x in e[1].split(",")], None if e[2] == "-" else int(e[2])))
        return res

    def skipshown(self):
        return [[_nm(x) for x in e[1].split(",")] for e in self.events if e[0] == "skipshown"]

    def child_msgs(self):
        return {"t" + e[1]: (e[2] if len(e) > 2 else "") for e in self.events if e[0] == "ch"}

    def started(self):
        return ["t" + e[1] for e in self.events if e[0] == "st"]


def _nm(x):
    x = int(x)
    return "s%d" % (x - 1000) if x >= 1000 else "t%d" % x


# ------------------------------------------------------------------------------------------
# parsers of the native outputs
# ------------------------------------------------------------------------------------------
CNT_RE = {"p": r"(\d+) pass(?:es)?", "s": r"(\d+) skipped", "f": r"(\d+) failures?", "e": r"(\d+) exceptions?"}


def _counts(txt):
    if "No assertions" in txt:
        return (0, 0, 0, 0)
    g = lambda k: int(re.search(CNT_RE[k], txt).group(1)) if re.search(CNT_RE[k], txt) else 0
    return (g("p"), g("f"), g("s"), g("e"))


def parse_text(out):
    """-> dict(suites=[(name, counts)], completed=counts|None, failures=[crumb list], exceptions=[...])"""
    res = {"suites": [], "completed": None, "failures": [], "exceptions": []}
    lines = out.split("\n")
    for i, l in enumerate(lines):
        m = re.match(r'  "([^"]*)": (.*)\.$', l)
        if m:
            res["suites"].append((m.group(1), _counts(m.group(2))))
        m = re.match(r'Completed "([^"]*)": (.*)\.$', l)
        if m:
            res["completed"] = _counts(m.group(2))
        m = re.match(r"(.*?):(\d+): (Failure|Exception): (.*)$", l)
        if m:
            crumb = [x.strip() for x in m.group(4).split("->") if x.strip()]
            res["failures" if m.group(3) == "Failure" else "exceptions"].append(
                (crumb, int(m.group(2)), lines[i + 1].strip() if i + 1 < len(lines) else ""))
    return res


def parse_cute(out):
    res = {"status": {}, "order": [], "totals": None, "errors": [], "failures": []}
    for l in out.split("\n"):
        m = re.match(r"#starting (\S+)", l)
        if m:
            res["order"].append(m.group(1))
        m = re.match(r"#success (\S+) OK", l)
        if m:
            res["status"].setdefault(m.group(1), []).append("success")
        m = re.match(r"#failure (\S+) ", l)
        if m:
            res["failures"].append(m.group(1))
        m = re.match(r"#error (\S+) failed to complete", l)
        if m:
            res["errors"].append(m.group(1))
        m = re.match(r"#ending \S+: (\d+) pass(?:es)?, (\d+) failures?, (\d+) exceptions?", l)
        if m:
            res["totals"] = tuple(map(int, m.groups()))
    return res


def parse_xml_files(files):
    """-> {suite path: [(testname, classname, n_failure, n_error, n_skipped)]} or raises ET.ParseError"""
    res = {}
    for fn, data in files.items():
        if fn == "Test.xml":
            continue
        root = ET.fromstring(data)
        cases = []
        for tc in root.iter("testcase"):
            cases.append((tc.get("name"), tc.get("classname"), len(tc.findall("failure")),
                          len(tc.findall("error")), len(tc.findall("skipped"))))
        res[fn] = {"suite": root.get("name"), "cases": cases,
                   "attrs": {k: root.get(k) for k in ("failures", "errors", "skipped")}}
    return res


def parse_cdash(files):
    data = files.get("Test.xml", b"").decode("latin-1")
    res = {"passed": [], "failed": [], "incomplete": []}
    for m in re.finditer(r'<Test Status="(\w+)">\s*<Name>([^<]*)</Name>', data):
        res.setdefault(m.group(1), []).append(m.group(2))
    return res


# ------------------------------------------------------------------------------------------
# observations from the event log
# ------------------------------------------------------------------------------------------
def log_tdone(run):
    return [(a[0], tuple(map(int, a[1:5]))) for pid, k, a in run.log if k == "tdone"]


def log_tmsg(run):
    """(test name, the message finish_test was given or None)"""
    return [(a[0], None if a[1] == "-" else bytes.fromhex(a[1]).decode("latin-1")) for pid, k, a in run.log if k == "tmsg" and len(a) >= 2]


def log_sdone(run):
    return [(a[0], tuple(map(int, a[1:5])), int(a[5]), tuple(map(int, a[6:10]))) for pid, k, a in run.log if k == "sdone"]


def log_verdict(run):
    for pid, k, a in run.log:
        if k == "verdict":
            return int(a[0]), pid
    return None, None
