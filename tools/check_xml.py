"""C11: the XML and libxml2 reporters terminate and write well-formed, complete XML."""
import os, re, resource, shutil, subprocess, xml.parsers.expat
import xml.etree.ElementTree as ET
from concurrent.futures import ThreadPoolExecutor
import vlib, layerc as L

TRUSTED = [
    "Coq 8.16.1 kernel (full .vo build; vm_compute only in examples; no native_compute)",
    "Xml.v is a hand-written Gallina model of src/xml_reporter.c (escaping with the 1000-byte cut, the per-test output, the document layout); tied to the code by byte-for-byte comparison of the model's rendering with the files the real reporter writes (time attribute stripped) - differential testing, not translation",
    "extraction: ExtrOcamlBasic only; ocaml/h_xml.ml glue",
    "independent parser: expat (python xml.parsers.expat / ElementTree) decides well-formedness of the real files",
    "modelled, not verified: libxml2 (parser, tree, serializer, xmlGetUTF8Char) - the libxml2 reporter is covered by the parsed-tree comparison and the termination / exit-status observations only; stdio, tmpfile(), the file system",
]


def hx(b):
    return b.hex() if b else ""


class Item:
    """one thing a test does: ('pass',) ('fail', text) ('skip',) ('die', sig)"""


def scn(reporter, mode, suites, tests, log):
    """suites: [(sid, name, parent)], tests: [(tid, name, sid, xensure, items)]"""
    out = ["reporter " + reporter, "log " + log, "run suite"]
    for sid, name, parent in suites:
        out.append("S %d %s %s 0 0" % (sid, name, "-" if parent is None else parent))
    for tid, name, sid, xensure, items in tests:
        out.append("T %d %s %d %d 0 0" % (tid, name, sid, 1 if xensure else 0))
        for it in items:
            if it[0] == "pass":
                out.append("a %d b pass" % tid)
            elif it[0] == "fail":
                out.append(("a %d b failmsg %s" % (tid, hx(it[1]))).rstrip())
            elif it[0] == "streq":
                out.append("a %d b streq %s %s" % (tid, hx(it[1]), hx(it[2])))
            elif it[0] == "skip":
                out.append("a %d b skip" % tid)
            elif it[0] == "die":
                out.append("a %d b sig %d" % (tid, it[1]))
    if mode != "inproc" and (len(tests) + sum(len(t[4]) for t in tests)) % 2 == 0:
        # the documented switch between exit() and _exit() at the end of a test process; the report may not depend
        # on it (last line: the line numbers of the checks above stay what the model expects)
        out.append("env CGREEN_CHILD_EXIT_WITH__EXIT 1")
    return "\n".join(out) + "\n"


def run_scn(drv, text, mode, nofile=None, timeout=60):
    d = vlib.private_dir("xml")
    try:
        open(os.path.join(d, "case.scn"), "w", encoding="latin-1").write(text.replace("log events.log", "log " + os.path.join(d, "events.log")))
        env = dict(os.environ)
        env.pop("CGREEN_NO_FORK", None); env.pop("CGREEN_PER_TEST_TIMEOUT", None)
        if mode == "inproc":
            env["CGREEN_NO_FORK"] = "1"
        env["ASAN_OPTIONS"] = "detect_leaks=0"

        def limit():
            if nofile:
                resource.setrlimit(resource.RLIMIT_NOFILE, (nofile, nofile))
        try:
            p = vlib.run_group([drv, "case.scn"], cwd=d, env=env, stdout=subprocess.PIPE, stderr=subprocess.PIPE, timeout=timeout, preexec_fn=limit)
            rc, err = p.returncode, p.stderr.decode("latin-1")
        except subprocess.TimeoutExpired as ex:
            rc, err = None, (ex.stderr or b"").decode("latin-1")
        files = {f: open(os.path.join(d, f), "rb").read() for f in sorted(os.listdir(d)) if f.endswith(".xml")}
        return rc, err, files
    finally:
        shutil.rmtree(d, ignore_errors=True)


ALPHA = [b"<", b">", b"&", b'"', b"'", b"%", b"s", b"%s", b"a", b" ", b"\xe9", b"\xc3\xa9", b"]]>", b"&amp;", b"\\"]
CTRL = [b"\x01", b"\x7f", b"\x1b", b"\x0c"]
WS = [b"\n", b"\t", b"\r"]


def gen_text(rng, ln, pool):
    out = b""
    while len(out) < ln:
        out += rng.choice(pool)
    return out[:ln] if ln else b""


def xml_text(b, reporter):
    """the text a failure message must decode to: what the text reporter prints"""
    return b


def scenarios(chk):
    rng = chk.rng
    big = chk.tier == "thorough"
    cases = []

    def one(label, suites, tests, reporters=("xml", "libxml"), modes=("forked",), nofile=None):
        for rep in reporters:
            for mode in modes:
                cases.append({"label": label, "rep": rep, "mode": mode, "suites": suites, "tests": tests, "nofile": nofile})
    S0 = [(0, "top", None)]
    # message contents
    for pool_name, pool in (("meta", ALPHA), ("meta+ws", ALPHA + WS), ("meta+ctrl", ALPHA + CTRL)):
        for ln in ([0, 1, 7, 999, 1000, 1001, 5000] if big else [1, 7, 1000, 1001]):
            tests = [(1, "t1", 0, False, [("pass",), ("fail", gen_text(rng, ln, pool)), ("pass",)]),
                     (2, "t2", 0, False, [("pass",)])]
            one("message %s len=%d" % (pool_name, ln), S0, tests, modes=("forked", "inproc") if ln in (7, 1001) else ("forked",))
    for t in (b"%s", b"%n", b"100%", b"a%sb%d", b"\x01", b"\x7f", b"<", b'"', b"&", b"'", b"\n", b"x\ty", b"\xe9", b"\xc3\xa9", b"\xff\xfe", b"\xed\xa0\x80"):
        one("message %r" % t, S0, [(1, "t1", 0, False, [("fail", t)])])
    # assertions with string operands (the formatted path)
    for a, e in ((b"a<b", b"c&d"), (b'say "hi"', b"%s"), (b"\x01", b"x"), (b"l1\nl2", b"l1")):
        one("streq %r %r" % (a, e), S0, [(1, "t1", 0, False, [("streq", a, e)])])
    # many failures in one test
    for n in ([0, 1, 20, 21, 40, 60, 200] if big else [1, 21, 40, 60]):
        one("failures n=%d" % n, S0, [(1, "t1", 0, False, [("fail", b"failure number %d <&>" % i) for i in range(n)]), (2, "t2", 0, False, [("pass",)])])
    # outcomes: skipped, xEnsure, dying with and without delivered failures, nested suites
    suites = [(0, "top", None), (1, "sub", 0), (2, "deep", 1)]
    tests = [(1, "passes", 0, False, [("pass",)]), (2, "fails", 1, False, [("pass",), ("fail", b"f1"), ("fail", b"f2")]),
             (3, "skips", 1, False, [("pass",), ("skip",)]), (4, "xensure", 2, True, []),
             (5, "dies", 2, False, [("fail", b"before dying"), ("die", 11)]), (6, "killed", 0, False, [("die", 9)]),
             (7, "aborts", 1, False, [("pass",), ("die", 6)]), (8, "empty", 0, False, [])]
    one("outcomes", suites, tests, modes=("forked",))
    # names with XML metacharacters (create_named_test_suite / add_test take any text)
    for nm in ("a<b", "a&b", 'a"b', "a'b", "a>b", "x\x01y", "caf\xe9", "t%s", "t%d%n"):
        one("suite name %r" % nm, [(0, "top", None), (1, nm, 0)], [(1, "t1", 1, False, [("fail", b"m")])])
        one("test name %r" % nm, S0, [(1, nm, 0, False, [("fail", b"m")])])
    # more tests than file descriptors
    n = 70 if not big else 1100
    one("tests n=%d nofile=%d" % (n, 64 if not big else 1024), S0, [(i + 1, "t%d" % (i + 1), 0, False, [("pass",)] if i % 7 else [("fail", b"x")]) for i in range(n)],
        nofile=64 if not big else 1024)
    # random mixes
    for k in range(20 if not big else 400):
        nt = rng.choice([1, 2, 4, 9])
        tests = []
        for i in range(nt):
            items = []
            for _ in range(rng.choice([0, 1, 2, 5])):
                r = rng.random()
                if r < 0.4:
                    items.append(("pass",))
                elif r < 0.85:
                    items.append(("fail", gen_text(rng, rng.choice([1, 3, 12, 80]), ALPHA + (WS if rng.random() < 0.3 else []))))
                else:
                    items.append(("streq", gen_text(rng, 5, ALPHA), gen_text(rng, 4, ALPHA)))
            w = rng.random()
            if w < 0.1:
                items.append(("die", rng.choice([11, 9, 15])))
            elif w < 0.2:
                items.append(("skip",))
            tests.append((i + 1, "t%d" % (i + 1), rng.choice([0, 1]), rng.random() < 0.1, items))
        one("random %d" % k, [(0, "top", None), (1, "sub", 0)], tests, modes=("forked", "inproc") if k % 5 == 0 else ("forked",))
    return cases


def is_ctrl(c):
    return c < 32 and c not in (9, 10, 13)


def renderings(want, rep):
    """(what the message must decode to, what it decodes to when unrepresentable characters are shown
    as text, the same after attribute-value normalisation)"""
    if rep == "xml":
        cut = want[:999]                                   # vsnprintf into char[1000]: an unaltered prefix
        exact = cut.decode("latin-1")
        shown = "".join("\\x%02x" % c if is_ctrl(c) else chr(c) for c in cut)
        # what a parser does: line ends (CR LF, CR) become LF, then LF and TAB in an attribute become a space
        return exact, shown, re.sub("[\n\t]", " ", shown.replace("\r\n", "\n").replace("\r", "\n"))
    # libxml2 reporter: UTF-8; invalid bytes as \xNN, restricted characters as &xN;
    out, i = [], 0
    exact = want.decode("utf-8", "surrogateescape")
    while i < len(want):
        for ln in (1, 2, 3, 4):
            try:
                ch = want[i:i + ln].decode("utf-8", "surrogatepass")
                break
            except UnicodeDecodeError:
                ch = None
        if ch is None or len(ch) != 1:
            out.append("\\x%02x" % want[i]); i += 1
            continue
        cp = ord(ch)
        ok = cp in (9, 10, 13, 0x85) or 0x20 <= cp <= 0x7e or 0xa0 <= cp <= 0xd7ff or 0xe000 <= cp <= 0xfdcf or 0xfdf0 <= cp <= 0xfffd or (cp >= 0x10000 and (cp & 0xffff) <= 0xfffd)
        out.append(ch if ok else "&x%x;" % cp)
        i += ln
    shown = "".join(out)
    return exact, shown, shown


def decoded_name(name, rep):
    b = name.encode("latin-1")
    return renderings(b, rep)[1]


def expected(case):
    """per executed test: (failures texts, skipped?, error?) from the scripts; None = unknown corner"""
    exp = {}
    stop = False
    for tid, name, sid, xensure, items in case["tests"]:
        if xensure:
            exp[name] = ([], True, False); continue
        fails, skipped, died = [], False, False
        for it in items:
            if it[0] == "fail":
                fails.append(it[1])
            elif it[0] == "streq" and it[1] != it[2]:
                fails.append(None)               # text produced by message_formatting: checked for presence only
            elif it[0] == "skip":
                skipped = True
            elif it[0] == "die":
                died = True
                break
        exp[name] = (fails, skipped, died)
    return exp


def check_files(chk, case, rc, err, files, rp):
    rep, mode = case["rep"], case["mode"]
    label = case["label"]
    if rc is None:
        chk.violation("hang-%s" % rep, "%s reporter did not terminate (%s, mode %s)" % (rep, label, mode), rp)
        return
    exp = expected(case)
    dies = [n for n, e in exp.items() if e[2]]
    if mode == "inproc" and dies:
        return                                    # the runner itself is killed: nothing to require of the files
    if rc is not None and rc < 0:
        chk.violation("parent-crash-%s" % rep, "the runner was killed by signal %d while writing XML (%s)" % (-rc, label), rp)
        return
    if rc not in (0, 1):
        if "File name too long" in err or "exceeds PATH_MAX" in err:
            chk.count("os-limit: file name")
            return
        chk.violation("runner-exit-%s" % rep, "runner exit status %s (%s): %s" % (rc, label, err[-200:]), rp)
        return
    if not files:
        chk.violation("no-files-%s" % rep, "no XML file written (%s)" % label, rp)
        return
    seen = {}
    for fn, data in files.items():
        try:
            root = ET.fromstring(data)
        except ET.ParseError as ex:
            chk.violation("malformed-%s" % rep, "%s: %s is not well-formed XML (%s); %s" % (label, fn, ex, rep), dict(rp, file=fn, content=data[:3000].decode("latin-1")))
            continue
        for tc in root.iter("testcase"):
            seen.setdefault(tc.get("name"), []).append(tc)
    for name, (fails, skipped, died) in exp.items():
        tcs = seen.get(decoded_name(name, rep), [])
        if len(tcs) != 1:
            chk.violation("testcase-count-%s" % rep, "%s: test %r appears as %d testcase elements" % (label, name, len(tcs)), rp)
            continue
        tc = tcs[0]
        got_f = tc.findall("failure")
        if len(got_f) != len(fails):
            chk.violation("failure-count-%s" % rep, "%s: test %r has %d failure elements, %d checks failed" % (label, name, len(got_f), len(fails)), rp)
        else:
            for el, want in zip(got_f, fails):
                if want is None:
                    continue
                msg = el.get("message")
                if msg is None:
                    chk.violation("failure-message-%s" % rep, "%s: failure element without message" % label, rp)
                    continue
                exact, shown, normalised = renderings(want, rep)
                if msg == exact:
                    continue
                if msg == shown:
                    sig = "message-unrepresentable-%s" % rep
                    why = "a character XML cannot carry is shown as text"
                elif msg == normalised:
                    sig = "message-whitespace-normalised-xml"
                    why = "line breaks / tabs are written literally into the attribute; an XML parser normalises them to spaces"
                else:
                    sig = "failure-message-%s" % rep
                    why = "unexpected"
                chk.violation(sig, "%s: failure message decodes to %r, the text reporter prints %r (%s)" % (label, msg[:100], exact[:100], why), rp)
        if bool(tc.findall("skipped")) != skipped:
            chk.violation("skipped-%s" % rep, "%s: test %r skipped=%s but %d skipped elements" % (label, name, skipped, len(tc.findall("skipped"))), rp)
        if bool(tc.findall("error")) != died:
            chk.violation("error-%s" % rep, "%s: test %r ended abnormally=%s but %d error elements" % (label, name, died, len(tc.findall("error"))), rp)


def check_C11(chk):
    build = vlib.build_repo("hooks")
    drv = vlib.build_driver("scn_driver", build, libs=("-lcgreen", "-lxml2"))
    chk.prove(["Properties_C11.v", "Properties_Code_Xml.v"])
    chk.cov["trusted_base"] = TRUSTED + ["axioms: see coverage.print_assumptions"]
    cases = scenarios(chk)
    # the attribute escaping of the xml reporter translated whole from src/xml_reporter.c (concat_escaped, concat),
    # run by the extracted CLite interpreter against Xml.escape on every byte value and on combinations; texts on
    # which they differ become failure messages of real runs as well
    import codetie
    for t in codetie.string_function(chk, "xmlesc", codetie.xmlesc_inputs(chk), "escaped() of the xml reporter")[:12]:
        if t and 0 not in t and len(t) < 200:
            cases.append({"label": "message %r (translated escaping differs from the model)" % t, "rep": "xml", "mode": "forked",
                          "suites": [(0, "top", None)], "tests": [(1, "t1", 0, False, [("fail", t)]), (2, "t2", 0, False, [("pass",)])], "nofile": None})

    def do(case):
        text = scn(case["rep"], case["mode"], case["suites"], case["tests"], "events.log")
        return text, run_scn(drv, text, case["mode"], nofile=case["nofile"], timeout=40)
    with ThreadPoolExecutor(vlib.NPROC) as ex:
        results = list(ex.map(do, cases))
    import check_xml_model
    for case, (text, (rc, err, files)) in zip(cases, results):
        chk.case((case["label"], case["rep"], case["mode"]))
        chk.count("reporter:" + case["rep"])
        chk.count("kind:" + case["label"].split(" ")[0])
        rp = {"what": case["label"], "reporter": case["rep"], "mode": case["mode"], "exit": rc, "stderr": err[-500:],
              "scenario": text[:6000], "nofile_limit": case["nofile"],
              "how": "write the scenario to a file; (ulimit -n <nofile_limit>;) _work/bin-hooks/scn_driver <file>; parse the out-*.xml files"}
        check_files(chk, case, rc, err, files, rp)
        if case["rep"] == "xml" and rc in (0, 1):
            check_xml_model.compare(chk, case, files, rp)
        chk.sample({"what": case["label"], "reporter": case["rep"], "exit": rc, "files": sorted(files)[:3]}, limit=5)
    return chk.finish()


CHECKS = {"C11": check_C11}
